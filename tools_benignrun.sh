#!/bin/bash
# usage: tools_benignrun.sh <patch.diff>...  -- all 19 quick checks must stay silent (exit 0) on a behaviour-preserving patch
for patch in "$@"; do
  wt=$(mktemp -d /tmp/benignrun.XXXXXX); rmdir $wt
  git -C /repo worktree add -q --detach "$wt" HEAD >/dev/null 2>&1
  if ! git -C "$wt" apply "$patch" 2>/dev/null; then echo "$patch: PATCH DOES NOT APPLY"; git -C /repo worktree remove --force "$wt"; continue; fi
  res=""
  for p in C01 C02 C03 C04 C05 C06 C07 C08 C09 C10 C11 C12 C13 C14 C15 C16 C17 C18 C19 C20; do
    out=$(cd /verif && JASMSA_REPO="$wt" ./check $p ${BENIGN_TIER:+--tier $BENIGN_TIER} 2>&1); rc=$?
    if [ $rc -ne 0 ]; then res="$res\n   $p rc=$rc: $(echo "$out" | grep -E 'FAIL|ANALYSIS-ERROR' | head -2 | cut -c1-${BENIGN_COLS:-230})"; fi
  done
  if [ -z "$res" ]; then echo "$patch: silent"; else echo -e "$patch: ALARM$res"; fi
  git -C /repo worktree remove --force "$wt"
done
