#!/bin/bash
# usage: tools_seedrun.sh <patch.diff> <prop> [<prop>...]   -- run checks against a scratch worktree with the patch applied
set -u
patch="$1"; shift
wt=$(mktemp -d /tmp/seedrun.XXXXXX)
git -C /repo worktree add -q --detach "$wt" HEAD >/dev/null 2>&1
if ! git -C "$wt" apply "$patch" 2>/dev/null; then echo "PATCH DOES NOT APPLY: $patch"; git -C /repo worktree remove --force "$wt"; exit 3; fi
for p in "$@"; do
  out=$(cd /verif && JASMSA_REPO="$wt" ./check "$p" 2>&1); rc=$?
  echo "== $p exit=$rc"; echo "$out" | grep -E "FAIL|VIOLATION|ANALYSIS-ERROR" | cut -c1-260 | head -${SEEDRUN_LINES:-4}
done
git -C /repo worktree remove --force "$wt"
