#!/venv/bin/python
"""Verify seeded changes: patch applies, suite result unchanged (129 pass / 3 baseline failures), demo fails with the
change and passes without; then run every check against the patched tree.  Usage: tools_seedverify.py <dir-of-seeds> [ids]"""
import concurrent.futures as cf
import json
import os
import pathlib
import shutil
import subprocess
import sys
import tempfile

PROPS = [f"C{n:02d}" for n in (1, 2, 3, 4, 5, 6, 7, 8, 9, 10, 11, 12, 13, 14, 15, 16, 17, 18, 19, 20)]


def sh(cmd, cwd=None, env=None, timeout=1500):
    e = dict(os.environ)
    e.update(env or {})
    try:
        r = subprocess.run(cmd, shell=True, cwd=cwd, env=e, capture_output=True, text=True, timeout=timeout)
    except subprocess.TimeoutExpired:
        return 124, f"TIMEOUT after {timeout}s: {cmd}"
    return r.returncode, (r.stdout + r.stderr)


def verify(seed_dir: str, run_suite: bool = True):
    sd = pathlib.Path(seed_dir)
    res = {"seed": str(sd), "ok": False}
    wt = tempfile.mkdtemp(prefix="seedv_", dir="/tmp")
    os.rmdir(wt)
    try:
        rc, out = sh(f"git -C /repo worktree add -q --detach {wt} HEAD")
        if rc:
            res["error"] = "worktree: " + out[-200:]
            return res
        env = {"PYTHONPATH": f"{wt}/src"}
        rc, out = sh(f"/venv/bin/python {sd}/demo.py", cwd="/tmp", env=env, timeout=600)
        res["demo_clean_rc"] = rc
        rc, out = sh(f"git -C {wt} apply {sd}/patch.diff")
        if rc:
            res["error"] = "patch does not apply: " + out[-200:]
            return res
        rc, out = sh(f"/venv/bin/python -m compileall -q {wt}/src", cwd=wt)
        res["compiles"] = rc == 0
        rc, out = sh(f"/venv/bin/python {sd}/demo.py", cwd="/tmp", env=env, timeout=600)
        res["demo_patched_rc"] = rc
        if run_suite:
            rc, out = sh("/venv/bin/python -m pytest -q -p no:cacheprovider -n 4 2>&1 | grep -E '[0-9]+ passed' | tail -1", cwd=wt, env=env, timeout=1200)
            res["suite"] = out.strip()[-60:]
        fired, errs = [], []

        def one(p):
            return p, sh(f"./check {p} --tier quick", cwd="/verif", env={"JASMSA_REPO": wt, "JASMSA_JOBS": "2"})[0]
        with cf.ThreadPoolExecutor(5) as ex2:
            for p, rc in ex2.map(one, PROPS):
                if rc == 1:
                    fired.append(p)
                elif rc == 124:
                    errs.append(p + ":TIMEOUT")
                elif rc != 0:
                    errs.append(p)
        res["fired"], res["analysis_errors"] = fired, errs
        res["ok"] = (res["demo_clean_rc"] == 0 and res["demo_patched_rc"] != 0 and res.get("compiles") and
                     (not run_suite or ("129 passed" in res["suite"] and "3 failed" in res["suite"])))
        return res
    finally:
        sh(f"git -C /repo worktree remove --force {wt}")
        shutil.rmtree(wt, ignore_errors=True)


if __name__ == "__main__":
    root = pathlib.Path(sys.argv[1])
    seeds = sorted(str(p.parent) for p in root.glob("*/*/patch.diff")) or sorted(str(p.parent) for p in root.glob("*/patch.diff"))
    if len(sys.argv) > 2:
        seeds = [s for s in seeds if any(x in s for x in sys.argv[2:])]
    with cf.ThreadPoolExecutor(3) as ex:
        for r in ex.map(verify, seeds):
            print(json.dumps(r), flush=True)
