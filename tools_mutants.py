#!/venv/bin/python
"""Applies each single-site mutant of selftest/mutants.py to a scratch worktree and runs the named check.
Usage: tools_mutants.py [--suite] [id-substring...]   (--suite also runs the repository tests on each mutant)"""
import concurrent.futures as cf
import json
import os
import py_compile
import subprocess
import sys
import tempfile

sys.path.insert(0, "/verif/selftest")
from mutants import MUTANTS  # noqa: E402


def run(m, suite):
    mid, prop, f, old, new = m
    wt = tempfile.mkdtemp(prefix="mut_", dir="/tmp")
    os.rmdir(wt)
    subprocess.run(f"git -C /repo worktree add -q --detach {wt} HEAD", shell=True, check=True, capture_output=True)
    try:
        p = os.path.join(wt, f)
        s = open(p).read()
        if old not in s:
            return {"id": mid, "status": "NOT-APPLICABLE (anchor text changed)"}
        open(p, "w").write(s.replace(old, new, 1))
        try:
            py_compile.compile(p, doraise=True)
        except py_compile.PyCompileError as exc:
            return {"id": mid, "status": f"DOES-NOT-COMPILE {exc}"[:120]}
        r = subprocess.run(f"cd /verif && JASMSA_REPO={wt} ./check {prop}", shell=True, capture_output=True, text=True)
        res = {"id": mid, "prop": prop, "rc": r.returncode,
               "first": next((l.strip()[:200] for l in r.stdout.split("\n") if "FAIL" in l or "ANALYSIS-ERROR" in l), "")}
        if suite:
            t = subprocess.run(f"cd {wt} && PYTHONPATH={wt}/src /venv/bin/python -m pytest -q -p no:cacheprovider -n 4 2>&1 | grep -E '[0-9]+ passed' | tail -1",
                               shell=True, capture_output=True, text=True)
            res["suite"] = t.stdout.strip()[-40:]
        res["status"] = "caught" if r.returncode == 1 else ("ANALYSIS-ERROR" if r.returncode == 2 else "MISSED")
        return res
    finally:
        subprocess.run(f"git -C /repo worktree remove --force {wt}", shell=True, capture_output=True)


if __name__ == "__main__":
    args = [a for a in sys.argv[1:] if not a.startswith("--")]
    suite = "--suite" in sys.argv
    ms = [m for m in MUTANTS if not args or any(a in m[0] for a in args)]
    out = []
    with cf.ThreadPoolExecutor(6) as ex:
        for r in ex.map(lambda m: run(m, suite), ms):
            out.append(r)
            print(json.dumps(r), flush=True)
    caught = sum(1 for r in out if r.get("status") == "caught")
    print(f"# {caught}/{len(out)} caught")
