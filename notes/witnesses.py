import os, sys, tempfile, textwrap
ROOT = os.environ.get("ROOT", "/repo")
from jasm.global_definitions import *
from jasm.match import MasterOfPuppets
B, LST, S = MatchingReturnMode.bool, MatchingReturnMode.matched_addrs_list, MatchingReturnMode.all_instructions_string
def run(rule, asm, mode=MatchingSearchMode.all_finds, ret=LST, macros=None):
    d = tempfile.mkdtemp()
    rp = os.path.join(d, "r.yaml"); open(rp,"w").write(rule)
    ap = os.path.join(d, "a.s"); open(ap,"w").write(asm)
    m = MasterOfPuppets(MatchConfig(pattern_pathstr=rp, input_file=ap, return_mode=ret, matching_mode=mode, macros=macros))
    return m.perform_matching()
def L(addr, mn, ops=""):
    return f"  {addr}:\t90                   \t{mn}" + (f"    {ops}" if ops else "") + "\n"
def tr(name, f):
    try: print(name, "=>", f())
    except Exception as e: print(name, "=> EXC", type(e).__name__, str(e)[:100])
asm = L("401000","push","%rbp")+L("401001","mov","%rsp,%rbp")+L("401004","call","401100 <foo>")+L("401009","nop")+L("40100a","ret")
pm = (L("401000","push","%rbp")+L("401001","mov","%rsp,%rbp"))*2
M = [ROOT + "/tests/macros/jasm_macros.yaml"]
tr("01 and-times2", lambda: run("pattern:\n  - $and:\n      - push\n      - mov\n    times: 2\n", pm))
tr("02 leading-not", lambda: run("pattern:\n  - $not:\n      - call\n  - nop\n", asm))
tr("03 op-not", lambda: run("pattern:\n  - mov:\n      - $not:\n          - rax\n      - rbp\n", asm))
tr("04 cap-prefix", lambda: run("pattern:\n  - mov:\n      - '&v'\n  - mov:\n      - '&v'\n", L("401000","mov","$0x1,%eax")+L("401005","mov","$0x10,%ebx")))
a5 = L("401000","mov","%rax,%rbx")+L("401003","mov","%bl,%cl")
tr("05 genreg.8L (rax then bl: expect none)", lambda: run("pattern:\n  - mov:\n      - '&genreg.64'\n  - mov:\n      - '&genreg.8L'\n", a5))
tr("06 later-occ in operand $or", lambda: run("pattern:\n  - mov:\n      - '&x'\n  - mov:\n      - $or:\n          - '&x'\n          - zzz\n", L("401000","mov","%rax,%rbx")+L("401003","mov","%rax,%rcx")))
tr("07 genreg.64 first vs %al", lambda: run("pattern:\n  - mov:\n      - '&genreg.64'\n", L("401003","mov","%al,%cl")))
tr("08 @any span", lambda: run("pattern:\n  - push:\n      - '@any'\n      - '@any'\n", asm, macros=M))
tr("09 (.) span", lambda: run("pattern:\n  - foo:\n      - '&genreg'\n", L("401003","foo","e,xyz")))
tr("10 jo,pn", lambda: run("pattern:\n  - nop\n", "   180158160:\t2e 70 64             \tjo,pn  0x1801581c7\n", ret=S))
tr("11 no-bytes", lambda: repr(run("pattern:\n  - nop\n", "  401000:\tpush   %rbp\n  401001:\tnop\n", ret=S)))
tr("12 times -1", lambda: run("pattern:\n  - push:\n      times: -1\n", asm, ret=B))
tr("13 style", lambda: run("config:\n  style: intell\npattern:\n  - nop\n", asm, ret=B))
tr("14 C19 key", lambda: run("macros:\n  - name: '@m'\n    pattern: nop\npattern:\n  - '@undef':\n      times: 2\n  - '@m'\n", asm, ret=B))
tr("15 C19 body-last", lambda: run("macros:\n  - name: '@m'\n    pattern:\n      - $or:\n          - '@undef'\n          - zzz\npattern:\n  - '@m'\n", asm, ret=B))
tr("16 C19 order", lambda: run("macros:\n  - name: '@b'\n    pattern: nop\n  - name: '@a'\n    pattern:\n      - $or:\n          - '@b'\n          - zzz\npattern:\n  - '@a'\n", asm, ret=B))
tr("17a ah", lambda: run("pattern:\n  - mov:\n      - ah\n", L("401003","mov","%ah,%bl")))
tr("17b 10h,eax", lambda: run("pattern:\n  - mov:\n      - 10h\n      - eax\n", L("401000","mov","$0x10,%eax")))
a5 = L("401000","mov","%rax,%rbx")+L("401003","mov","%al,%cl")
tr("05b genreg.64 then .8L on rax/al expect match", lambda: run("pattern:\n  - mov:\n      - '&genreg.64'\n  - mov:\n      - '&genreg.8L'\n", a5))
a = L("401000","mov","%rsi,%rbx")+L("401003","mov","%sil,%cl")
tr("G4b indreg then .16 vs %sil expect none", lambda: run("pattern:\n  - mov:\n      - '&indreg.64'\n  - mov:\n      - '&indreg.16'\n", a))
a2 = L("401000","mov","%rsi,%rbx")+L("401003","mov","%si,%cx")
tr("G4b indreg then .16 vs %si expect match", lambda: run("pattern:\n  - mov:\n      - '&indreg.64'\n  - mov:\n      - '&indreg.16'\n", a2))
a3 = L("401000","mov","%rax,%rbx")+L("401003","mov","0x8(%rax),%rcx")
tr("G4b genreg in deref expect match", lambda: run("pattern:\n  - mov:\n      - '&genreg.64'\n  - mov:\n      - $deref:\n          main_reg: '&genreg.64'\n          constant_offset: 0x8\n", a3))
a4 = L("401000","mov","0x8(%rax),%rbx")+L("401003","mov","%rax,$0x8")
tr("G3 deref capture order (offset written first) expect match", lambda: run("pattern:\n  - mov:\n      - $deref:\n          constant_offset: '&k'\n          main_reg: '&r'\n  - mov:\n      - '&r'\n      - '&k'\n", a4))
