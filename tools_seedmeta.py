#!/venv/bin/python
"""Fill seeded/*/meta.json from verification runs.
usage: tools_seedmeta.py <final-results.jsonl> [<final-results2.jsonl> ...]
Each line of a results file is what tools_seedverify.py prints for one seed. The first-run results kept under
notes/seedruns/ (what fired before the checks were strengthened for that round) are merged as `before_strengthening`."""
import glob
import json
import pathlib
import re
import sys

ROOT = pathlib.Path("/verif/seeded")
ORIGIN = {
    4: "fresh sub-agent given only the property text and a scratch worktree (round 4: a performance optimisation and a "
       "robustness / leniency improvement)",
    5: "fresh sub-agent given only the property text and a scratch worktree (round 5: a classic Python pitfall and a data-only edit)",
    6: "fresh sub-agent given only the property text and a scratch worktree (round 6: a wrong-variable / argument-order / "
       "off-by-one slip and a condition slip)",
    7: "fresh sub-agent given only the property text and a scratch worktree (round 7: a library/idiom migration with subtly "
       "different semantics and a change of when or how often something is evaluated)",
    8: "fresh sub-agent given only the property text and a scratch worktree (round 8: a large refactoring commit with one hidden "
       "slip and a change confined to shared definitions)",
    9: "fresh sub-agent given only the property text and a scratch worktree (round 9: a Python modernisation / typing clean-up with "
       "a semantic side effect and a diagnostics / logging addition with a side effect); checks run with exploration budgets of "
       "200 s / 420 s for this round",
}


def round_of(sid: str) -> int:
    k = int(sid.split("-")[1])
    return (k + 1) // 2


def load(files):
    out = {}
    for f in files:
        for line in open(f):
            if not line.startswith('{"seed"'):
                continue
            r = json.loads(line)
            out[r["seed"].rstrip("/").split("/")[-1]] = r
    return out


final = load(sys.argv[1:])
first = {}
for f in sorted(glob.glob("/verif/notes/seedruns/first_run_r*.jsonl")):
    first.update(load([f]))
r6 = pathlib.Path("/verif/notes/seedruns/first_run_r6.txt")
if r6.exists():
    for line in r6.read_text().splitlines():
        m = re.match(r"(C\d\d-\d+): == (C\d\d) exit=(\d)", line)
        if m:
            first[m.group(1)] = {"target_only": True, "fired": [m.group(2)] if m.group(3) == "1" else [],
                                 "analysis_errors": [m.group(2)] if m.group(3) == "2" else []}
n = 0
for d in sorted(ROOT.iterdir()):
    mf = d / "meta.json"
    if not mf.exists():
        continue
    sid = d.name
    m = json.loads(mf.read_text())
    r = final.get(sid)
    if r is None:
        print("no result for", sid)
        continue
    pid = sid.split("-")[0]
    rnd = m.get("round") or round_of(sid)
    m["round"] = rnd
    m.setdefault("property", pid)
    if "origin" not in m and rnd in ORIGIN:
        m["origin"] = ORIGIN[rnd]
    m["verified"] = {"suite_with_patch": r.get("suite"), "demo_rc_clean_tree": r.get("demo_clean_rc"),
                     "demo_rc_patched_tree": r.get("demo_patched_rc"), "compiles": r.get("compiles"), "confirmed": bool(r.get("ok"))}
    m["checks_that_fire"] = r.get("fired", [])
    m["checks_with_analysis_error"] = r.get("analysis_errors", [])
    m["target_check_fires"] = pid in r.get("fired", [])
    if rnd >= 4 and sid in first and "before_strengthening" not in m:
        fr = first[sid]
        m["before_strengthening"] = {"checks_that_fired": fr.get("fired", []), "analysis_errors": fr.get("analysis_errors", []),
                                     "target_check_fired": pid in fr.get("fired", []),
                                     **({"only_the_target_check_was_run": True} if fr.get("target_only") else {})}
    mf.write_text(json.dumps(m, indent=2) + "\n")
    n += 1
print("updated", n)
