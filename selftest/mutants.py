"""Single-site mutants (DESIGN 4, 'M:' lists): (id, expected property, file, old text, new text).
Each must still byte-compile; the named check must exit 1 on the mutated tree.  Run: ../tools_mutants.py"""
R = "src/jasm/"
GD = R + "global_definitions.py"
NBR = R + "jasm_regex/tree_generators/pattern_node_implementations/node_branch_root.py"
MNO = R + "jasm_regex/tree_generators/pattern_node_implementations/mnemonic_and_operand/mnemonic_and_operand.py"
AST = R + "jasm_regex/tree_generators/pattern_node_type_builder/ast_builder.py"
PNB = R + "jasm_regex/tree_generators/pattern_node_builder.py"
TTB = R + "jasm_regex/tree_generators/pattern_node_implementations/time_type_builder.py"
CGI = R + "jasm_regex/tree_generators/capture_group_index.py"
CGR = R + "jasm_regex/tree_generators/pattern_node_implementations/capture_group/capture_group_register.py"
CGO = R + "jasm_regex/tree_generators/pattern_node_implementations/capture_group/capture_group_operand.py"
CGN = R + "jasm_regex/tree_generators/pattern_node_implementations/capture_group/capture_group_instruction.py"
CM = R + "jasm_regex/tree_generators/capture_manager.py"
CIF = R + "jasm_regex/tree_generators/pattern_node_type_builder/capture_group_interface.py"
DRF = R + "jasm_regex/tree_generators/deref_classes.py"
DRN = R + "jasm_regex/tree_generators/pattern_node_implementations/deref.py"
PAR = R + "stringify_asm/implementations/gnu_objdump/asm_manual_parser_w_regex.py"
PM = R + "stringify_asm/implementations/gnu_objdump/gnu_objdump_parser_manual.py"
GOD = R + "stringify_asm/implementations/gnu_objdump/gnu_objdump_disassembler.py"
SHD = R + "stringify_asm/implementations/shell_disassembler.py"
CON = R + "consumer.py"
MAT = R + "match.py"
MOB = R + "matched_observers.py"
MEX = R + "jasm_regex/macro_expander/macro_expander.py"
Y2R = R + "jasm_regex/yaml2regex.py"
MAIN = R + "main.py"
ARGS = R + "parse_arguments.py"

MUTANTS = [
    # C01
    ("c01-suffix-no-comma", "C01", GD, 'IGNORE_NAME_SUFFIX: Final = f"[^,|]{ASTERISK_WITH_LIMIT},"', 'IGNORE_NAME_SUFFIX: Final = f"[^,|]{ASTERISK_WITH_LIMIT}"'),
    ("c01-prefix-admits-comma", "C01", GD, 'IGNORE_NAME_PREFIX: Final = f"[^,|]{ASTERISK_WITH_LIMIT}"', 'IGNORE_NAME_PREFIX: Final = f"[^|]{ASTERISK_WITH_LIMIT}"'),
    ("c01-flags-swapped", "C01", MNO, "self.helper.allow_matching_substring(PartialMatchingConfig.OperandsFullMatch)", "self.helper.allow_matching_substring(PartialMatchingConfig.MnemonicsFullMatch)"),
    ("c01-full-mode-no-comma", "C01", MNO, 'return name_str + ","', "return name_str"),
    ("c01-addr-decimal-only", "C01", GD, 'IGNORE_INST_ADDR: Final = r"[\\dabcedf]+::"', 'IGNORE_INST_ADDR: Final = r"[\\d]+::"'),
    ("c01-flag-default-true", "C01", GD, 'mnemonics = config.get("mnemonics-full-match", False)', 'mnemonics = config.get("mnemonics-full-match", True)'),
    ("c01-tail-excludes-comma", "C01", GD, 'SKIP_TO_END_OF_PATTERN_NODE: Final = f"[^|]{ASTERISK_WITH_LIMIT}" + INSTRUCTION_SEPARATOR', 'SKIP_TO_END_OF_PATTERN_NODE: Final = f"[^,|]{ASTERISK_WITH_LIMIT}" + INSTRUCTION_SEPARATOR'),
    # C02
    ("c02-minmax-swapped", "C02", TTB, 'return f"{{{times.min_times},{times.max_times}}}"', 'return f"{{{times.max_times},{times.min_times}}}"'),
    ("c02-int-is-1-to-n", "C02", PNB, "return TimesType(_min_times=times, _max_times=times)", "return TimesType(_min_times=1, _max_times=times)"),
    ("c02-quantifier-on-last-atom", "C02", MNO, 'return f"(?:{IGNORE_INST_ADDR}(?:{pattern_node_name}{SKIP_TO_END_OF_PATTERN_NODE})){times_regex}"', 'return f"{IGNORE_INST_ADDR}(?:{pattern_node_name}{SKIP_TO_END_OF_PATTERN_NODE}){times_regex}"'),
    ("c02-min-zero-becomes-one", "C02", PNB, 'min_time = times.get("min", 1)', 'min_time = times.get("min") or 1'),
    ("c02-and-times-tail", "C02", NBR, "return f\"(?:{''.join(child_regexes)}){times_regex}\"", "return f\"(?:{''.join(child_regexes) + SKIP_TO_END_OF_PATTERN_NODE}){times_regex}\""),
    # C03
    ("c03-or-unsealed", "C03", NBR, 'return f"(?:{self.join_or_instructions(child_regexes)})"', "return self.join_or_instructions(child_regexes)"),
    ("c03-permutations-of-2", "C03", NBR, "permutations(child_regexes)]", "permutations(child_regexes, 2)]"),
    ("c03-and-reversed", "C03", NBR, "return [child.get_regex() for child in self.children]", "return [child.get_regex() for child in reversed(self.children)]"),
    ("c03-context-dropped", "C03", AST, "node.children.append(builder.build(child, build_context))", "node.children.append(builder.build(child))"),
    ("c03-general-builder-for-children", "C05", AST, "            builder = builder_for_context(build_context)\n            node.children.append(builder.build(child, build_context))", "            builder = GeneralPatternNodeBuilder()\n            node.children.append(builder.build(child, build_context))"),
    # C04
    ("c04-positive-lookahead", "C04", NBR, 'return f"(?:(?!{\'\'.join(child_regexes)}){self.consumed_unit})"', 'return f"(?:(?={\'\'.join(child_regexes)}){self.consumed_unit})"'),
    ("c04-unit-twice", "C04", NBR, "consumed_unit = IGNORE_INST_ADDR + SKIP_TO_END_OF_PATTERN_NODE", "consumed_unit = IGNORE_INST_ADDR + SKIP_TO_END_OF_PATTERN_NODE + IGNORE_INST_ADDR + SKIP_TO_END_OF_PATTERN_NODE"),
    ("c04-no-address-frame", "C04", NBR, "consumed_unit = IGNORE_INST_ADDR + SKIP_TO_END_OF_PATTERN_NODE", "consumed_unit = SKIP_TO_END_OF_PATTERN_NODE"),
    ("c04-operand-not-as-instruction", "C04", AST, "                return NodeNotOperand(node)", "                return NodeNot(node)"),
    # C05
    ("c05-or-capturing", "C05", NBR, 'regex_instructions = [f"(?:{elem})" for elem in inst_list]\n\n        joined_by_bar_instructions = "|".join(regex_instructions)\n\n        return joined_by_bar_instructions', 'regex_instructions = [f"({elem})" for elem in inst_list]\n\n        joined_by_bar_instructions = "|".join(regex_instructions)\n\n        return joined_by_bar_instructions'),
    ("c05-index-zero-based", "C05", CM, "return i + 1", "return i"),
    ("c05-build-branches-swapped", "C05", CIF, "            return self._process_call(untyped_node)\n", "            return self._process_register(untyped_node)\n"),
    ("c05-genreg32-is-r", "C05", CGR, 'return "e" + index + "x"', 'return "r" + index + "x"'),
    ("c05-operand-ref-no-comma", "C05", CGO, 'return r"([^,|]+),"', 'return r"([^,|]+)"'),
    ("c05-call-optional-comma", "C05", CGI, 'return rf"\\{self.index},"', 'return rf"\\{self.index},?"'),
    ("c05-instr-ref-captures-address", "C05", CGN, 'return rf"{IGNORE_INST_ADDR}([^|]+),\\|"', 'return rf"({IGNORE_INST_ADDR}[^|]+),\\|"'),
    ("c05-deref-emission-enum-order", "C05", AST, 'emission_order = ["main_reg", "register_multiplier", "constant_multiplier", "constant_offset"]', 'emission_order = ["main_reg", "constant_offset", "register_multiplier", "constant_multiplier"]'),
    # C06
    ("c06-b-c-swapped", "C06", DRF, 'regex += rf"\\+{self.register_multiplier}\\*{self.constant_multiplier}"', 'regex += rf"\\+{self.constant_multiplier}\\*{self.register_multiplier}"'),
    ("c06-closing-bracket-optional", "C06", DRF, 'return regex + r"\\]"', 'return regex + r"\\]?"'),
    ("c06-parser-b-c-swapped", "C06", PAR, 'return f"[{main_reg}+{register_multiplier}*{constant_multiplier}+{constant_offset}]"', 'return f"[{main_reg}+{constant_multiplier}*{register_multiplier}+{constant_offset}]"'),
    ("c06-deref-comma-optional", "C06", DRN, 'return f"{deref_regex},"', 'return f"{deref_regex},?"'),
    # C07
    ("c07-skip-without-bar", "C07", GD, 'SKIP_TO_END_OF_PATTERN_NODE: Final = f"[^|]{ASTERISK_WITH_LIMIT}" + INSTRUCTION_SEPARATOR', 'SKIP_TO_END_OF_PATTERN_NODE: Final = f"[^|]{ASTERISK_WITH_LIMIT}" + INSTRUCTION_SEPARATOR + "?"'),
    ("c07-addr-split-on-comma", "C07", CON, 'return regex_result.split("::")[0]', 'return regex_result.split(",")[0]'),
    ("c07-instr-capture-admits-bar", "C07", CGN, 'return rf"{IGNORE_INST_ADDR}([^|]+),\\|"', 'return rf"{IGNORE_INST_ADDR}([^,]+),\\|"'),
    # C09
    ("c09-dollar-strips-two", "C09", PAR, "            return operand_elem[1:]\n", "            return operand_elem[2:]\n"),
    ("c09-ka-order-swapped", "C09", PAR, 'return f"[{register}+{immediate}]"', 'return f"[{immediate}+{register}]"'),
    ("c09-operand-filter", "C09", PAR, "return [self._process_operand_elem(operand_elem=operand) for operand in self.operands]", "return [self._process_operand_elem(operand_elem=operand) for operand in self.operands if operand]"),
    # C10
    ("c10-join-comma-space", "C10", GD, "{','.join(self.operands)}", "{', '.join(self.operands)}"),
    ("c10-terminator-bar-only", "C10", CON, 'processed_inst.stringify() + ",|"', 'processed_inst.stringify() + "|"'),
    ("c10-single-colon", "C10", GD, 'return f"{self.addr}::{self.mnemonic},', 'return f"{self.addr}:{self.mnemonic},'),
    ("c10-mnemonic-admits-comma", "C10", PAR, 'MNEMONIC = rf"{TAB}([^ ,]+){BRANCH_HINT}"', 'MNEMONIC = rf"{TAB}([^ ]+)"'),
    # C11
    ("c11-overlapped", "C11", CON, "pattern=self._regex_rule, string=self._all_instructions, timeout=self.timeout_regex\n            )\n\n        except TimeoutError as exc:\n            logger.error(\"Regex timeout\")\n            raise ValueError(\"Regex timeout\") from exc\n\n        if match_iterator:", "pattern=self._regex_rule, string=self._all_instructions, timeout=self.timeout_regex, overlapped=True\n            )\n\n        except TimeoutError as exc:\n            logger.error(\"Regex timeout\")\n            raise ValueError(\"Regex timeout\") from exc\n\n        if match_iterator:"),
    ("c11-insert-front", "C11", MOB, "self.addr_list.append(addr)", "self.addr_list.insert(0, addr)"),
    ("c11-break-after-first", "C11", CON, "                        self._matched_observer.regex_matched(match_result.group(0))\n\n\n# TODO", "                        self._matched_observer.regex_matched(match_result.group(0))\n                    break\n\n\n# TODO"),
    ("c11-match-instead-of-search", "C11", CON, "match_result = regex.search(", "match_result = regex.match("),
    # C12
    ("c12-matched-in-finalize", "C12", MOB, '        if not self.matched:\n            logger.info("RESULT: Pattern not found\\n")', '        self.matched = bool(self.addr_list) or self.matched\n        if not self.matched:\n            logger.info("RESULT: Pattern not found\\n")'),
    ("c12-group1-in-one-arm", "C12", CON, "                addr = self.get_first_addr_from_regex_result(match_result.group(0))\n                self._matched_observer.regex_matched(addr)\n            else:", "                addr = self.get_first_addr_from_regex_result(match_result.group(1))\n                self._matched_observer.regex_matched(addr)\n            else:"),
    ("c12-bool-from-tail", "C12", MAT, "return_matched: bool = matched_observer.matched", "return_matched: bool = bool(matched_observer.addr_list[1:])"),
    # C13
    ("c13-no-deepcopy", "C13", MEX, "macro_copy = copy.deepcopy(macro)\n            macro_copy = MacroArgsResolver()", "macro_copy = macro\n            macro_copy = MacroArgsResolver()"),
    # C14
    ("c14-no-reset-of-range", "C14", GD, "        else:\n            self._set_info(\"valid_addr_range\", None)\n", "\n"),
    ("c14-class-level-flags", "C14", GOD, '        default_flags = ["-d"]\n\n        flags = default_flags', '        flags = self.default_flags'),
    ("c14-sections-no-reset", "C14", GD, '        self._set_info("sections", sections)', '        if sections:\n            self._set_info("sections", sections)'),
    # C15
    ("c15-capital-D", "C15", GOD, 'default_flags = ["-d"]', 'default_flags = ["-D"]'),
    ("c15-first-section-dropped", "C15", GOD, "flags.extend(self._form_section_flags(sections))", "flags.extend(self._form_section_flags(sections[1:]))"),
    ("c15-returns-stderr", "C15", SHD, "return result.stdout", "return result.stderr"),
    # C16
    ("c16-comment-captured", "C16", PAR, 'OPERANDS = r"([^# ]+)"', 'OPERANDS = r"([^#]+)"'),
    ("c16-remove-empty-not-installed", "C16", MAT, "observers: List[IInstructionObserver] = [RemoveEmptyInstructions()]", "observers: List[IInstructionObserver] = []"),
    ("c16-labels-forwarded", "C16", PM, "if isinstance(elem, Instruction)]", "if not isinstance(elem, str)]"),
    # C17
    ("c17-check-false", "C17", SHD, "check=True,", "check=False,"),
    ("c17-swallow-calledprocesserror", "C17", SHD, "raise BinaryFileFormatNotSupported(exc.stderr) from exc", 'return ""'),
    # (removing the $not arity guard or the main_reg guard stays loud by accident - NotImplementedError / AttributeError -
    #  so those two design-phase mutants are not property violations and are not listed)
    ("c17-sections-logged-not-raised", "C17", GD, '            raise ValueError("sections must be a list of strings")', '            logger.error("sections must be a list of strings")\n            sections = []'),
    ("c17-negative-times-accepted", "C17", GD, "if self._min_times < 0 or self._max_times < self._min_times:", "if self._max_times < self._min_times:"),
    # C18
    ("c18-strict-lower-bound", "C18", GD, "return self.min.hex <= addr_hex.hex <= self.max.hex", "return self.min.hex < addr_hex.hex <= self.max.hex"),
    ("c18-none-when-out-of-range", "C18", MAT, "                return Instruction(addr=inst.addr, mnemonic=inst.mnemonic, operands=[\"valid_addr\"])\n        return inst", "                return Instruction(addr=inst.addr, mnemonic=inst.mnemonic, operands=[\"valid_addr\"])\n            return None\n        return inst"),
    ("c18-keeps-other-operands", "C18", MAT, 'operands=["valid_addr"])', 'operands=["valid_addr"] + inst.operands[1:])'),
    ("c18-star-test-dropped", "C18", MAT, '            if "*" in inst_addr_jump:\n                return inst\n', ""),
    ("c18-decimal", "C18", GD, "self.hex = int(only_int_part, 16)", "self.hex = int(only_int_part, 10)"),
    # C19
    ("c19-sweep-skips-keys", "C19", MEX, "                    self._collect_macro_references(key, rule_macros)\n", ""),
    ("c19-raise-to-warning", "C19", MEX, '            raise ValueError(f"The following macros are not defined: {rule_macros}")', '            print(f"The following macros are not defined: {rule_macros}")'),
    ("c19-name-check-weakened", "C19", MEX, "            if not self.is_macro_name(macro_name):\n                raise ValueError(f\"Macro name {macro_name} must start with '@'\")\n", "            pass\n"),
    # C20
    ("c20-assembly-binary-swapped", "C20", MAIN, "            input_file = args.assembly\n", "            input_file = args.binary\n"),
    ("c20-all-matches-inverted", "C20", MAIN, "    if args.all_matches:", "    if not args.all_matches:"),
    ("c20-group-not-required", "C20", ARGS, "add_mutually_exclusive_group(required=True)", "add_mutually_exclusive_group(required=False)"),
    ("c20-macros-dropped", "C20", MAIN, "        macros=args.macros,", "        macros=None,"),
    ("c20-finalize-chain-cut", "C20", CON, "                self.do_match_all_findings()\n\n        super().finalize()", "                self.do_match_all_findings()\n"),
]
