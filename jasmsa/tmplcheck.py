"""tmplcheck -- run a skeleton family through the interpreted compile pipeline and judge every node."""
from __future__ import annotations

import multiprocessing as mp
import os
from typing import Dict, List, Optional, Tuple

from .compose import analyse_skeleton
from .facts import AnalysisError, Program
from .models import make_interp
from .obligations import Result, judge_skeleton
from .skeletons import Skeleton, quick_family, thorough_family

_G: Dict[str, object] = {}


def _work(idx_list: List[int]):
    prog: Program = _G["program"]  # type: ignore[assignment]
    fam: List[Skeleton] = _G["family"]  # type: ignore[assignment]
    I = make_interp(prog)
    out: List[Result] = []
    stats = {"skeletons": 0, "paths": 0, "nodes": 0}
    try:
        for i in idx_list:
            sk = fam[i]
            an = analyse_skeleton(I, sk.yaml())
            stats["skeletons"] += 1
            stats["paths"] += len(an)
            stats["nodes"] += sum(len(list(a.root.walk())) for a in an if a.root is not None)
            out.extend(judge_skeleton(sk, an))
    except AnalysisError as exc:
        return ("error", f"{exc} (while analysing skeleton {fam[i].label!r})", stats)
    except RecursionError as exc:
        return ("error", f"recursion limit (skeleton {fam[i].label!r})", stats)
    from .absint import TRUNCATED
    stats["truncated"] = len(TRUNCATED)
    return ("ok", out, stats)


def family(ctx, tags=None) -> List[Skeleton]:
    fam = thorough_family() if ctx.tier == "thorough" else quick_family()
    if tags:
        fam = [s for s in fam if set(s.tags) & set(tags)]
    return fam


def family_results(ctx, tags=None, jobs: Optional[int] = None) -> Tuple[List[Result], Dict[str, int]]:
    fam = family(ctx, tags)
    _G["program"], _G["family"] = ctx.p, fam
    jobs = jobs or int(os.environ.get("JASMSA_JOBS", "0") or 0) or min(16, os.cpu_count() or 4, max(1, len(fam) // 4))
    chunks: List[List[int]] = [list(range(len(fam)))[k::jobs] for k in range(jobs)]
    chunks = [c for c in chunks if c]
    if jobs > 1:
        with mp.get_context("fork").Pool(len(chunks)) as pool:
            parts = pool.map(_work, chunks)
    else:
        parts = [_work(c) for c in chunks]
    out: List[Result] = []
    stats = {"skeletons": 0, "paths": 0, "nodes": 0, "truncated": 0}
    for kind, payload, st in parts:
        for k in stats:
            stats[k] += st.get(k, 0)
        if kind == "error":
            raise AnalysisError(str(payload))
        out.extend(payload)  # type: ignore[arg-type]
    if stats["truncated"]:
        from .absint import TRUNCATED
        TRUNCATED.append("a skeleton exploration was stopped at the path limit")
    return out, stats


def report(ctx, results: List[Result], prop_rule: str, prefixes=(), cats=(), compile_tags=()) -> int:
    """file the results a property owns: by obligation-rule prefix, by node category, and the
    'skeleton compiles' results of the skeleton tags it is responsible for"""
    n = 0
    for r in results:
        mine = any(r.rule.startswith(p) for p in prefixes) or (r.cat in cats and not r.rule.startswith("X."))
        if r.rule.startswith("X.compiles"):
            mine = bool(set(r.tags) & set(compile_tags))
        elif r.rule.startswith("X."):
            mine = any(r.rule.startswith(p) for p in prefixes)
        if not mine:
            continue
        n += 1
        rule = f"{prop_rule}.{r.rule}"
        if r.ok:
            ctx.ok(rule, r.construct, r.detail)
        else:
            ctx.fail(rule, r.construct, r.atom, r.message + " | " + r.detail[:220])
    return n
