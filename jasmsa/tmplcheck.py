"""tmplcheck -- run a skeleton family through the interpreted compile pipeline and judge every node."""
from __future__ import annotations

import time
from typing import Dict, List, Tuple

from .compose import analyse_skeleton
from .models import make_interp
from .obligations import Result, judge_skeleton
from .skeletons import Skeleton, quick_family, thorough_family


def family_results(ctx, tags=None) -> Tuple[List[Result], Dict[str, int]]:
    fam = thorough_family() if ctx.tier == "thorough" else quick_family()
    if tags:
        fam = [s for s in fam if set(s.tags) & set(tags)]
    I = make_interp(ctx.p)
    out: List[Result] = []
    stats = {"skeletons": 0, "paths": 0, "nodes": 0}
    for sk in fam:
        an = analyse_skeleton(I, sk.yaml())
        stats["skeletons"] += 1
        stats["paths"] += len(an)
        stats["nodes"] += sum(len(list(a.root.walk())) for a in an if a.root is not None)
        out.extend(judge_skeleton(sk, an))
    return out, stats


def report(ctx, results: List[Result], prefix_map: Dict[str, str]) -> None:
    """prefix_map: obligation rule prefix -> property rule id, e.g. {'R1.': 'C01.R1'}"""
    for r in results:
        for pre, rid in prefix_map.items():
            if r.rule.startswith(pre):
                rule = rid + ":" + r.rule
                if r.ok:
                    ctx.ok(rule, r.construct, r.detail)
                else:
                    ctx.fail(rule, r.construct, r.atom, r.message + " | " + r.detail[:200])
                break
