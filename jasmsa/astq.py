"""astq -- syntactic queries over the whole program (censuses, who-writes, loop shapes)."""
from __future__ import annotations

import ast
from typing import Dict, Iterator, List, Optional, Tuple

from .facts import ClassInfo, FuncInfo, ModuleInfo, Program

MUTATORS = {"append", "extend", "insert", "pop", "remove", "clear", "sort", "reverse", "update", "add", "discard",
            "setdefault", "popitem", "__setitem__", "__delitem__"}


def functions_with_module(p: Program) -> Iterator[Tuple[ModuleInfo, FuncInfo]]:
    for m in p.modules.values():
        for f in m.funcs.values():
            yield m, f
        for c in m.classes.values():
            for f in list(c.methods.values()) + list(c.setters.values()):
                yield m, f


def attr_writes(p: Program, attrs: Tuple[str, ...]) -> List[Tuple[str, int, str, str]]:
    """(file, line, function, kind) of every store to / in-place mutation of an attribute named in attrs"""
    out = []
    for m, f in functions_with_module(p):
        for n in ast.walk(f.node):
            tgts: List[ast.expr] = []
            if isinstance(n, ast.Assign):
                tgts = list(n.targets)
            elif isinstance(n, (ast.AugAssign, ast.AnnAssign)):
                tgts = [n.target] if getattr(n, "value", True) is not None else []
            elif isinstance(n, ast.Delete):
                tgts = list(n.targets)
            for t in tgts:
                for sub in ast.walk(t):
                    if isinstance(sub, ast.Attribute) and sub.attr in attrs and isinstance(sub.ctx, (ast.Store, ast.Del)):
                        out.append((m.rel(), n.lineno, f.qualname, f"store .{sub.attr}"))
                    if isinstance(sub, ast.Subscript) and isinstance(sub.value, ast.Attribute) and \
                            sub.value.attr in attrs and isinstance(sub.ctx, (ast.Store, ast.Del)):
                        out.append((m.rel(), n.lineno, f.qualname, f"item store .{sub.value.attr}[..]"))
            if isinstance(n, ast.Call) and isinstance(n.func, ast.Attribute) and n.func.attr in MUTATORS:
                recv = n.func.value
                if isinstance(recv, ast.Attribute) and recv.attr in attrs:
                    out.append((m.rel(), n.lineno, f.qualname, f"{recv.attr}.{n.func.attr}()"))
            if isinstance(n, ast.Call) and isinstance(n.func, ast.Name) and n.func.id == "setattr" and len(n.args) >= 2 \
                    and isinstance(n.args[1], ast.Constant) and n.args[1].value in attrs:
                out.append((m.rel(), n.lineno, f.qualname, f"setattr {n.args[1].value}"))
    return out


def loops_with_exits(f: FuncInfo) -> List[Tuple[int, str]]:
    """break / return / continue statements inside for/while loops of a function"""
    out = []

    def rec(node: ast.AST, in_loop: bool) -> None:
        for ch in ast.iter_child_nodes(node):
            if isinstance(ch, (ast.FunctionDef, ast.Lambda, ast.ClassDef)):
                continue
            if isinstance(ch, (ast.For, ast.While)):
                rec(ch, True)
                continue
            if in_loop and isinstance(ch, (ast.Break, ast.Continue, ast.Return)):
                out.append((ch.lineno, type(ch).__name__.lower()))
            rec(ch, in_loop)
    rec(f.node, False)
    return out


def calls_in(f: FuncInfo) -> List[ast.Call]:
    return [n for n in ast.walk(f.node) if isinstance(n, ast.Call)]


def call_name(c: ast.Call) -> str:
    from .facts import _dotted
    return _dotted(c.func)
