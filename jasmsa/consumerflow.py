"""consumerflow -- interpret CompleteConsumer (consume_instruction / finalize / do_match_*) and
MatchedObserver on an abstract instruction list; expose what is searched, how, and what is reported."""
from __future__ import annotations

from typing import Any, Dict, List, Optional

from .absint import Interp, Path
from .facts import AnalysisError
from .models import make_interp
from .values import (NONE, TRUE, FALSE, AbsList, BoolV, EnumV, Hole, ListV, Obj, Str, Unknown, Value)


def _lists_of(cons: Obj, depth: int = 2, prefix: str = "", seen=None) -> Dict[str, ListV]:
    """the concrete lists the consumer owns: its own list fields and those of the helper objects it holds (a stream or
    buffer object the records were moved into)"""
    seen = set() if seen is None else seen
    out: Dict[str, ListV] = {}
    if id(cons) in seen:
        return out
    seen.add(id(cons))
    for k, v in cons.fields.items():
        if isinstance(v, ListV) and v.absorbed is None:
            out[prefix + k] = v
        elif isinstance(v, Obj) and depth > 0 and v.cls.name not in ("MatchedObserver",):
            out.update(_lists_of(v, depth - 1, prefix + k + ".", seen))
    return out


def absorb_consumed(I: Interp, cons: Obj, before: Dict[str, int]) -> None:
    """turn every list the consumer owns that grew while consuming into a list of unknown length"""
    for k, v in _lists_of(cons).items():
        if len(v.items) > before.get(k, 0):
            v.absorbed = AbsList(v.items[-1], "consumed instructions", {})


def list_sizes(cons: Obj) -> Dict[str, int]:
    return {k: len(v.items) for k, v in _lists_of(cons).items()}


class Scenario:
    def __init__(self, mode: str, only_addr: bool, path: Path, obs: Obj, cons: Obj, feed: str = "two") -> None:
        self.mode, self.only_addr, self.path, self.obs, self.cons, self.feed = mode, only_addr, path, obs, cons, feed

    def regex_calls(self, I: Interp) -> List[Dict[str, Any]]:
        out = []
        for ev in self.path.events:
            if ev.kind == "extern_call" and (ev.name.startswith("regex.") or ev.name.startswith("re.")):
                out.append({"name": ev.name, "args": [I.expr_of(a) for a in ev.args],
                            "kwargs": {k: I.expr_of(v) for k, v in ev.kwargs.items()}, "func": ev.func})
        return out

    def reported(self, I: Interp) -> List[str]:
        out = []
        for ev in self.path.events:
            if ev.kind == "enter" and ev.func == "MatchedObserver.regex_matched":
                loc = ev.frame.locals
                arg = [v for k, v in loc.items() if k != "self"]
                out.append(I.expr_of(arg[0]) if arg else "?")
        return out


def observer_two_reports(I: Interp) -> List[Path]:
    """MatchedObserver().regex_matched(a); .regex_matched(b) -> the observer"""
    mo = I.p.find_class("MatchedObserver")

    init = mo.find_method("__init__")
    params = [a.arg for a in (init.node.args.args[1:] + init.node.args.kwonlyargs)] if init is not None else []

    def thunk(I: Interp) -> Value:
        # default construction, and (if the constructor takes options) construction with every option opaque:
        # whatever the observer is configured with, a report is a report
        opaque = bool(params) and I.run.assume(("observer-options", "opaque"), "observer constructed with opaque options")
        kw = {n: Unknown(f"OBS_{n}", {"expr": f"OBS_{n}"}) for n in params} if opaque else {}
        obs = I.construct(mo, [], kw, None, None)
        m = mo.find_method("regex_matched")
        if m is None:
            raise AnalysisError("anchor MatchedObserver.regex_matched not found")
        I.run.user["obs"] = obs
        I.run.user["matched0"] = I.get_attr(obs, "matched", None, None)
        for name in ("hit_a", "hit_b"):
            I.call_func(m, [Unknown(name, {"expr": name, "truthy": True, "not_none": True})], {}, obs, None, None)
        return obs
    return I.explore(thunk)


_RX_VALUE: Dict[int, Value] = {}


def builder_regex_value(p) -> Value:
    """the value MasterOfPuppets hands to CompleteConsumer as its rule: the regex string, or whatever the constructor
    derives from it (e.g. a compiled pattern) -- read off an interpretation of MasterOfPuppets.__init__"""
    if id(p) in _RX_VALUE:
        return _RX_VALUE[id(p)]
    from .matchflow import match_interp, match_scenarios
    default: Value = Str((Hole("REGEX", "regex", True),))
    val: Value = default
    try:
        Im = match_interp(p)
        for s in match_scenarios(Im, file_types=("assembly",), return_modes=("bool",), search_modes=("first_find",),
                                 only_addrs=(False,), configs=({},)):
            for e in s.path.events:
                if e.kind == "construct" and e.cls == "CompleteConsumer":
                    v = e.kwargs.get("regex_rule", e.args[0] if e.args else None)
                    if v is not None and "<REGEX>" in Im.expr_of(v):
                        val = v
                    break
            break
    except AnalysisError:
        val = default
    _RX_VALUE[id(p)] = val
    return val


def consumer_scenarios(I: Interp, feed: str = "two") -> List[Scenario]:
    """feed='two': exactly two instructions (order/completeness); feed='many': a listing of unknown length"""
    p = I.p
    cc = p.find_class("CompleteConsumer")
    mo = p.find_class("MatchedObserver")
    mode_cls = p.find_class("MatchingSearchMode")
    out: List[Scenario] = []
    rxv = builder_regex_value(p)
    for mode in ("first_find", "all_finds"):
        for only in (False, True):
            def thunk(I: Interp, mode=mode, only=only) -> Value:
                obs = I.construct(mo, [], {}, None, None)
                cons = I.construct(cc, [], {"regex_rule": rxv,
                                            "matched_observer": obs, "matching_mode": EnumV(mode_cls, mode),
                                            "return_only_address": TRUE if only else FALSE}, None, None)
                I.run.user["obs"], I.run.user["cons"] = obs, cons
                # two abstract instructions are consumed, in this order (the record writer is judged by C10)
                m = cc.find_method("consume_instruction")
                if m is None:
                    raise AnalysisError("anchor CompleteConsumer.consume_instruction not found")
                if feed == "two":
                    for k in (1, 2):
                        inst = Unknown(f"inst{k}", {"truthy": True, "not_none": True, "expr": f"inst{k}"})
                        I.call_func(m, [inst], {}, cons, None, None)
                else:
                    before = list_sizes(cons)
                    inst = Unknown("inst", {"truthy": True, "not_none": True, "expr": "inst"})
                    I.call_func(m, [inst], {}, cons, None, None)
                    absorb_consumed(I, cons, before)
                fin = cc.find_method("finalize")
                if fin is None:
                    raise AnalysisError("anchor CompleteConsumer.finalize not found")
                return I.call_func(fin, [], {}, cons, None, None)
            for path in I.explore(thunk):
                out.append(Scenario(mode, only, path, path.run.user.get("obs"), path.run.user.get("cons"), feed))
    return out
