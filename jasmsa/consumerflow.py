"""consumerflow -- interpret CompleteConsumer (consume_instruction / finalize / do_match_*) and
MatchedObserver on an abstract instruction list; expose what is searched, how, and what is reported."""
from __future__ import annotations

from typing import Any, Dict, List, Optional

from .absint import Interp, Path
from .facts import AnalysisError
from .models import make_interp
from .values import (NONE, TRUE, FALSE, AbsList, BoolV, EnumV, Hole, ListV, Obj, Str, Unknown, Value)


class Scenario:
    def __init__(self, mode: str, only_addr: bool, path: Path, obs: Obj, cons: Obj) -> None:
        self.mode, self.only_addr, self.path, self.obs, self.cons = mode, only_addr, path, obs, cons

    def regex_calls(self, I: Interp) -> List[Dict[str, Any]]:
        out = []
        for ev in self.path.events:
            if ev.kind == "extern_call" and (ev.name.startswith("regex.") or ev.name.startswith("re.")) \
                    and ev.func.startswith("CompleteConsumer"):
                out.append({"name": ev.name, "args": [I.expr_of(a) for a in ev.args],
                            "kwargs": {k: I.expr_of(v) for k, v in ev.kwargs.items()}, "func": ev.func})
        return out

    def reported(self, I: Interp) -> List[str]:
        out = []
        for ev in self.path.events:
            if ev.kind == "enter" and ev.func == "MatchedObserver.regex_matched":
                loc = ev.frame.locals
                arg = [v for k, v in loc.items() if k != "self"]
                out.append(I.expr_of(arg[0]) if arg else "?")
        return out


def consumer_scenarios(I: Interp) -> List[Scenario]:
    p = I.p
    cc = p.find_class("CompleteConsumer")
    mo = p.find_class("MatchedObserver")
    mode_cls = p.find_class("MatchingSearchMode")
    out: List[Scenario] = []
    for mode in ("first_find", "all_finds"):
        for only in (False, True):
            def thunk(I: Interp, mode=mode, only=only) -> Value:
                obs = I.construct(mo, [], {}, None, None)
                cons = I.construct(cc, [], {"regex_rule": Str((Hole("REGEX", "regex", True),)),
                                            "matched_observer": obs, "matching_mode": EnumV(mode_cls, mode),
                                            "return_only_address": TRUE if only else FALSE}, None, None)
                I.run.user["obs"], I.run.user["cons"] = obs, cons
                inst = Unknown("inst", {"truthy": True, "not_none": True})
                # one abstract instruction is consumed (the record writer is judged by C10)
                m = cc.find_method("consume_instruction")
                if m is None:
                    raise AnalysisError("anchor CompleteConsumer.consume_instruction not found")
                I.call_func(m, [inst], {}, cons, None, None)
                fin = cc.find_method("finalize")
                if fin is None:
                    raise AnalysisError("anchor CompleteConsumer.finalize not found")
                return I.call_func(fin, [], {}, cons, None, None)
            for path in I.explore(thunk):
                out.append(Scenario(mode, only, path, path.run.user.get("obs"), path.run.user.get("cons")))
    return out
