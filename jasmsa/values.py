"""Abstract values of the interpreter (string-template domain + small object model)."""
from __future__ import annotations

from typing import Any, Callable, Dict, List, Optional, Tuple


class Value:
    pass


class _NoneV(Value):
    def __repr__(self) -> str:
        return "None"


NONE = _NoneV()


class BoolV(Value):
    def __init__(self, v: bool) -> None:
        self.v = bool(v)

    def __repr__(self) -> str:
        return str(self.v)


TRUE, FALSE = BoolV(True), BoolV(False)


class SymBool(Value):
    """An unknown boolean with an identity (tag); `not` flips `neg`."""

    def __init__(self, tag: str, neg: bool = False, meta: Optional[dict] = None) -> None:
        self.tag, self.neg, self.meta = tag, neg, meta or {}

    def __repr__(self) -> str:
        return ("not " if self.neg else "") + f"?{self.tag}"


class IntV(Value):
    def __init__(self, v: int) -> None:
        self.v = v

    def __repr__(self) -> str:
        return str(self.v)


class FloatV(Value):
    def __init__(self, v: float) -> None:
        self.v = v


# ------------------------------------------------------------------ strings
class Lit(str):
    """literal piece of a template"""


class Hole:
    """opaque piece of a template: user text, a child's regex, a number ..."""

    def __init__(self, tag: str, kind: str = "hole", truthy: Optional[bool] = None,
                 oracle: Optional[Callable[[str, Any], Optional[bool]]] = None,
                 base: Optional["Hole"] = None, xform: Tuple[str, ...] = (), meta: Optional[dict] = None) -> None:
        self.tag, self.kind, self.truthy, self.oracle = tag, kind, truthy, oracle
        self.base, self.xform, self.meta = base, xform, meta or {}

    def root(self) -> "Hole":
        return self.base.root() if self.base is not None else self

    def derive(self, op: str) -> "Hole":
        return Hole(f"{self.tag}.{op}", self.kind, None, self.oracle, self, self.xform + (op,), dict(self.meta))

    def __repr__(self) -> str:
        return f"<{self.tag}>"

    def __eq__(self, other: object) -> bool:
        return isinstance(other, Hole) and other.tag == self.tag

    def __hash__(self) -> int:
        return hash(("hole", self.tag))


class Join:
    """sep.join(elem for each element of src)"""

    def __init__(self, sep: str, elem: "Str", src: str, flags: Optional[dict] = None) -> None:
        self.sep, self.elem, self.src, self.flags = sep, elem, src, flags or {}

    def __repr__(self) -> str:
        extra = "".join(f" {k}={v}" for k, v in sorted(self.flags.items()) if v)
        return f"JOIN({self.sep!r},{self.elem!r} over {self.src}{extra})"

    def __eq__(self, other: object) -> bool:
        return isinstance(other, Join) and (self.sep, self.elem, self.src, self.flags) == (
            other.sep, other.elem, other.src, other.flags)

    def __hash__(self) -> int:
        return hash(("join", self.sep, self.src))


class Str(Value):
    def __init__(self, atoms: Tuple[Any, ...] = ()) -> None:
        out: List[Any] = []
        for a in atoms:
            if isinstance(a, Lit) or (isinstance(a, str) and not isinstance(a, Lit)):
                if a == "":
                    continue
                if out and isinstance(out[-1], Lit):
                    out[-1] = Lit(out[-1] + a)
                else:
                    out.append(Lit(a))
            else:
                out.append(a)
        self.atoms: Tuple[Any, ...] = tuple(out)

    @staticmethod
    def lit(text: str) -> "Str":
        return Str((Lit(text),))

    def is_concrete(self) -> bool:
        return all(isinstance(a, Lit) for a in self.atoms)

    def text(self) -> str:
        assert self.is_concrete()
        return "".join(self.atoms)

    def single_hole(self) -> Optional[Hole]:
        if len(self.atoms) == 1 and isinstance(self.atoms[0], Hole):
            return self.atoms[0]
        return None

    def holes(self) -> List[Hole]:
        out = []
        for a in self.atoms:
            if isinstance(a, Hole):
                out.append(a)
            elif isinstance(a, Join):
                out.extend(a.elem.holes())
        return out

    def __add__(self, other: "Str") -> "Str":
        return Str(self.atoms + other.atoms)

    def render(self) -> str:
        return "".join(a if isinstance(a, Lit) else repr(a) for a in self.atoms)

    def __repr__(self) -> str:
        return "S'" + self.render() + "'"

    def __eq__(self, other: object) -> bool:
        return isinstance(other, Str) and self.atoms == other.atoms

    def __hash__(self) -> int:
        return hash(self.atoms)


# ------------------------------------------------------------------ containers
class ListV(Value):
    def __init__(self, items: Optional[List[Value]] = None) -> None:
        self.items: List[Value] = list(items or [])
        self.absorbed: Optional["AbsList"] = None  # becomes abstract when appended to inside an abstract loop

    def __repr__(self) -> str:
        return repr(self.items) if self.absorbed is None else repr(self.absorbed)


class AbsList(Value):
    """homogeneous list of unknown length: every element looks like `elem`"""

    def __init__(self, elem: Value, src: str, flags: Optional[dict] = None) -> None:
        self.elem, self.src, self.flags = elem, src, flags or {}

    def with_flags(self, **kw) -> "AbsList":
        f = dict(self.flags)
        f.update(kw)
        return AbsList(self.elem, self.src, f)

    def __repr__(self) -> str:
        extra = "".join(f" {k}={v}" for k, v in sorted(self.flags.items()) if v)
        return f"LIST({self.elem!r} over {self.src}{extra})"


class TupleV(Value):
    def __init__(self, items: List[Value]) -> None:
        self.items = list(items)

    def __repr__(self) -> str:
        return "(" + ", ".join(map(repr, self.items)) + ")"


class DictV(Value):
    def __init__(self, pairs: Optional[List[Tuple[Value, Value]]] = None) -> None:
        self.pairs: List[Tuple[Value, Value]] = list(pairs or [])

    def __repr__(self) -> str:
        return "{" + ", ".join(f"{k!r}: {v!r}" for k, v in self.pairs) + "}"


class SetV(Value):
    def __init__(self, items: Optional[List[Value]] = None) -> None:
        self.items: List[Value] = list(items or [])


# ------------------------------------------------------------------ objects
class Obj(Value):
    _n = 0

    def __init__(self, cls, fields: Optional[Dict[str, Value]] = None) -> None:
        self.cls = cls
        self.fields: Dict[str, Value] = dict(fields or {})
        Obj._n += 1
        self.oid = Obj._n

    def __repr__(self) -> str:
        return f"<{self.cls.name}#{self.oid}>"


class ClassV(Value):
    def __init__(self, cls) -> None:
        self.cls = cls

    def __repr__(self) -> str:
        return f"<class {self.cls.name}>"


class FuncV(Value):
    def __init__(self, func, self_val: Optional[Value] = None, closure: Optional[dict] = None,
                 start_cls=None) -> None:
        self.func, self.self_val, self.closure, self.start_cls = func, self_val, closure, start_cls

    def __repr__(self) -> str:
        return f"<func {self.func.qualname}>"


class LambdaV(Value):
    def __init__(self, node, frame, defaults=None) -> None:
        self.node, self.frame = node, frame
        self.defaults = defaults or {}       # parameter -> value, evaluated where the lambda was written

    def __repr__(self) -> str:
        import ast as _ast
        return f"<lambda {_ast.unparse(self.node)[:80]}>"


class EnumV(Value):
    def __init__(self, cls, member: str) -> None:
        self.cls, self.member = cls, member

    def __repr__(self) -> str:
        return f"{self.cls.name}.{self.member}"

    def __eq__(self, other: object) -> bool:
        return isinstance(other, EnumV) and other.cls is self.cls and other.member == self.member

    def __hash__(self) -> int:
        return hash((self.cls.name, self.member))


class Extern(Value):
    """something outside the repository (builtin, stdlib, third party), by dotted name"""

    def __init__(self, name: str, recv: Optional[Value] = None) -> None:
        self.name, self.recv = name, recv

    def __repr__(self) -> str:
        return f"<extern {self.name}>"


class ModuleV(Value):
    def __init__(self, name: str) -> None:
        self.name = name


class Unknown(Value):
    """opaque value with an identity"""

    def __init__(self, tag: str, meta: Optional[dict] = None) -> None:
        self.tag, self.meta = tag, meta or {}

    def __repr__(self) -> str:
        return f"?{self.tag}"


class ExcV(Value):
    def __init__(self, type_name: str, args: Optional[List[Value]] = None, cause: Optional["ExcV"] = None,
                 node=None, where: str = "") -> None:
        self.type_name, self.args, self.cause, self.node, self.where = type_name, args or [], cause, node, where

    def __repr__(self) -> str:
        return f"{self.type_name}({', '.join(map(repr, self.args))})"


class SuperV(Value):
    def __init__(self, self_val: Value, after_cls) -> None:
        self.self_val, self.after_cls = self_val, after_cls
