"""Builtins, string/list/dict methods and extern summaries of the abstract interpreter."""
from __future__ import annotations

import ast
from typing import Any, Dict, Iterator, List, Optional, Tuple

from .facts import AnalysisError
from .values import (NONE, TRUE, FALSE, AbsList, BoolV, ClassV, DictV, EnumV, ExcV, Extern, FloatV, FuncV, Hole,
                     IntV, Join, LambdaV, ListV, Lit, ModuleV, Obj, SetV, Str, SuperV, SymBool, TupleV, Unknown,
                     Value)

STR_METHODS = {"rpartition", "casefold", "isupper", "islower", "ljust", "rjust", "center", "swapcase", "expandtabs", "startswith", "endswith", "removesuffix", "removeprefix", "lower", "upper", "split", "replace",
               "join", "strip", "lstrip", "rstrip", "isdigit", "format", "find", "count", "splitlines", "encode",
               "title", "capitalize", "rsplit", "index", "isalnum", "isalpha", "partition", "zfill"}


class _AbstractOuter(Exception):
    def __init__(self, k, it):
        self.k, self.it = k, it


class Builtins:
    BUILTIN_NAMES = {
        "str", "int", "len", "list", "tuple", "isinstance", "enumerate", "range", "all", "any", "bool", "set",
        "dict", "print", "type", "sorted", "reversed", "zip", "getattr", "hasattr", "open", "repr", "min", "max",
        "sum", "abs", "iter", "next", "map", "filter", "float", "object", "id", "callable", "frozenset", "hex",
        "ValueError", "TypeError", "KeyError", "IndexError", "AssertionError", "NotImplementedError", "Exception",
        "FileNotFoundError", "TimeoutError", "RuntimeError", "OSError", "AttributeError", "BaseException",
        "StopIteration", "PermissionError", "LookupError", "UnicodeDecodeError", "NotImplemented", "Ellipsis",
        "__name__", "__file__", "staticmethod", "classmethod", "property", "super", "setattr", "vars", "issubclass",
    }
    EXC_NAMES = {"ValueError", "TypeError", "KeyError", "IndexError", "AssertionError", "NotImplementedError",
                 "Exception", "FileNotFoundError", "TimeoutError", "RuntimeError", "OSError", "AttributeError",
                 "BaseException", "StopIteration", "PermissionError", "LookupError", "UnicodeDecodeError",
                 "CalledProcessError"}
    # externs that may raise (modelled only inside a try body): name -> exception types
    MAY_RAISE = {
        "int": ["ValueError"],
        "subprocess.run": ["FileNotFoundError", "CalledProcessError"],
        "regex.search": ["TimeoutError"],
        "regex.finditer": ["TimeoutError"],
        "regex.match": ["TimeoutError"],
        "open": ["FileNotFoundError"],
    }

    def __init__(self, interp) -> None:
        self.I = interp

    # ------------------------------------------------------------------ conversions
    def to_str(self, v: Value, node, fr) -> Str:
        I = self.I
        if isinstance(v, Str):
            return v
        if isinstance(v, IntV):
            return Str.lit(str(v.v))
        if isinstance(v, BoolV):
            return Str.lit(str(v.v))
        if v is NONE:
            return Str.lit("None")
        if isinstance(v, FloatV):
            return Str.lit(str(v.v))
        if isinstance(v, Unknown):
            meta = dict(v.meta)
            return Str((Hole(v.tag, meta.get("kind", "unknown"), meta.get("truthy"), meta.get("oracle"), meta=meta),))
        if isinstance(v, SymBool):
            return Str((Hole(v.tag, "bool"),))
        if isinstance(v, EnumV):
            return Str.lit(f"{v.cls.name}.{v.member}")
        if isinstance(v, ExcV):
            return Str((Hole(I.run.new_tag("exc_text"), "exc"),))
        if isinstance(v, Obj):
            # an object that says how it is written: __str__ (str(), f-strings), else __repr__
            for dunder in ("__str__", "__repr__"):
                m = v.cls.find_method(dunder)
                if m is not None:
                    return self.to_str(I.call_func(m, [], {}, v, node, fr), node, fr)
        if isinstance(v, (ListV, AbsList, DictV, TupleV, SetV, Obj, ClassV)):
            return Str((Hole(I.run.new_tag("repr_of_" + type(v).__name__), "repr", meta={"of": v}),))
        raise I.unsupported(f"str() of {v!r}", node, fr)

    # ------------------------------------------------------------------ operators
    def binop(self, op, a: Value, b: Value, node, fr) -> Value:
        I = self.I
        if isinstance(a, ListV) and a.absorbed is not None:
            a = a.absorbed
        if isinstance(b, ListV) and b.absorbed is not None:
            b = b.absorbed
        if isinstance(a, SetV) and isinstance(b, SetV) and isinstance(op, (ast.BitAnd, ast.BitOr, ast.Sub, ast.BitXor)):
            r = self.set_op({ast.BitAnd: "and", ast.BitOr: "or", ast.Sub: "sub", ast.BitXor: "xor"}[type(op)], a, b, node, fr)
            if r is not None:
                return r
        if isinstance(op, ast.Add):
            if isinstance(a, Str) and isinstance(b, Str):
                return a + b
            if isinstance(a, IntV) and isinstance(b, IntV):
                return IntV(a.v + b.v)
            if isinstance(a, ListV) and isinstance(b, ListV):
                return ListV(a.items + b.items)
            if isinstance(a, TupleV) and isinstance(b, TupleV):
                return TupleV(a.items + b.items)
            if isinstance(a, (ListV, AbsList)) and isinstance(b, (ListV, AbsList)):
                return AbsList(Unknown(I.run.new_tag("concat_elem")), f"({self._src(a)}+{self._src(b)})",
                               {"concat": [a, b]})
            if isinstance(a, (Str, Unknown)) and isinstance(b, (Str, Unknown)):
                return self.to_str(a, node, fr) + self.to_str(b, node, fr) if isinstance(a, Str) or isinstance(b, Str) \
                    else Unknown(f"({a.tag}+{b.tag})", {"op": "+", "args": [a, b]})  # type: ignore[union-attr]
            if isinstance(a, (Unknown, IntV)) and isinstance(b, (Unknown, IntV)):
                return Unknown(f"({I.show(a)}+{I.show(b)})", {"op": "+", "args": [a, b]})
            if isinstance(a, (ListV, AbsList, Unknown)) and isinstance(b, (ListV, AbsList, Unknown)):
                return Unknown(f"({I.show(a)}+{I.show(b)})", {"op": "+", "args": [a, b]})
        if isinstance(op, (ast.Sub, ast.Mult, ast.FloorDiv, ast.Mod, ast.Div, ast.Pow, ast.BitOr, ast.BitAnd, ast.LShift, ast.RShift, ast.BitXor)):
            if isinstance(a, IntV) and isinstance(b, IntV):
                try:
                    r = {ast.Sub: lambda x, y: x - y, ast.Mult: lambda x, y: x * y, ast.FloorDiv: lambda x, y: x // y,
                         ast.Mod: lambda x, y: x % y, ast.Pow: lambda x, y: x ** y, ast.BitOr: lambda x, y: x | y,
                         ast.BitAnd: lambda x, y: x & y, ast.Div: lambda x, y: x / y, ast.LShift: lambda x, y: x << y,
                         ast.RShift: lambda x, y: x >> y, ast.BitXor: lambda x, y: x ^ y}[type(op)](a.v, b.v)
                except ZeroDivisionError:
                    I.raise_exc("ZeroDivisionError", [], node, fr)
                return I.lift(r)
            if isinstance(op, ast.Mult) and isinstance(a, Str) and a.is_concrete() and isinstance(b, IntV):
                return Str.lit(a.text() * b.v)
            if isinstance(op, ast.Mod) and isinstance(a, Str):
                return Str((Hole(I.run.new_tag("percent_format"), "formatted"),))
            if isinstance(op, ast.BitOr) and isinstance(a, (ClassV, Extern, Unknown)) :
                return Unknown(I.run.new_tag("type_union"))
            return Unknown(f"({I.show(a)}{type(op).__name__}{I.show(b)})",
                           {"op": type(op).__name__, "args": [a, b]})
        raise I.unsupported(f"binary {type(op).__name__} on {a!r}, {b!r}", node, fr)

    def set_op(self, name: str, a: SetV, b: Value, node, fr) -> Optional[Value]:
        """set algebra on concrete sets whose elements compare decidably"""
        I = self.I
        if isinstance(b, ListV) and b.absorbed is not None:
            return None
        if isinstance(b, DictV):
            bi = [k for k, _ in b.pairs]
        elif isinstance(b, (SetV, ListV, TupleV)):
            bi = list(b.items)
        else:
            return None

        def member(x, items):
            rs = [I.try_equals(x, y) for y in items]
            if any(r is True for r in rs):
                return True
            if any(r is None for r in rs):
                return I.equals_any(x, items) if hasattr(I, "equals_any") else any(I.equals(x, y) for y in items)
            return False
        if name in ("intersection", "and"):
            return SetV([x for x in a.items if member(x, bi)])
        if name in ("difference", "sub"):
            return SetV([x for x in a.items if not member(x, bi)])
        if name in ("union", "or"):
            return SetV(list(a.items) + [y for y in bi if not member(y, a.items)])
        if name in ("symmetric_difference", "xor"):
            return SetV([x for x in a.items if not member(x, bi)] + [y for y in bi if not member(y, a.items)])
        if name == "issubset":
            return I.lift(all(member(x, bi) for x in a.items))
        if name == "issuperset":
            return I.lift(all(member(y, a.items) for y in bi))
        if name == "isdisjoint":
            return I.lift(not any(member(x, bi) for x in a.items))
        return None

    def _src(self, v: Value) -> str:
        if isinstance(v, AbsList):
            return v.src
        return "[...]"

    def compare(self, op, a: Value, b: Value, node, fr) -> Value:
        I = self.I
        label = self.I.up(node) if node is not None else ""
        if isinstance(op, (ast.Eq, ast.NotEq)) and isinstance(a, Obj) and a.cls.find_method("__eq__") is not None:
            r0 = I.truth(I.call_func(a.cls.find_method("__eq__"), [b], {}, a, node, fr), label)
            return I.lift(r0 if isinstance(op, ast.Eq) else not r0)
        if isinstance(op, (ast.Eq, ast.NotEq)):
            r = I.try_equals(a, b)
            if r is None:
                sym = a if isinstance(a, (Unknown, SymBool)) else b
                if isinstance(a, Unknown) or isinstance(b, Unknown):
                    r2 = I.equals(a, b, label if isinstance(op, ast.Eq) else self.I.up(node).replace("!=", "=="))
                else:
                    r2 = I.equals(a, b, label if isinstance(op, ast.Eq) else self.I.up(node).replace("!=", "=="))
                r = r2
            return I.lift(r if isinstance(op, ast.Eq) else not r)
        if isinstance(op, (ast.Is, ast.IsNot)):
            other = b if a is NONE else a
            if (a is NONE or b is NONE) and isinstance(other, Unknown) and other.meta.get("match_or_none"):
                # a match object or None: `m is None` is `not m` (one decision per match attempt, however it is asked)
                r = not I.truth(other)
            elif a is NONE or b is NONE or isinstance(a, BoolV) or isinstance(b, BoolV):
                r = I.try_equals(a, b)
                if r is None:
                    r = I.equals(a, b, label.replace(" is not ", " is "))
            elif isinstance(a, (Obj,)) or isinstance(b, (Obj,)):
                r = a is b
            else:
                r0 = I.try_equals(a, b)
                r = r0 if r0 is not None else I.equals(a, b, label)
            return I.lift(r if isinstance(op, ast.Is) else not r)
        if isinstance(op, (ast.In, ast.NotIn)):
            r = self.contains(b, a, node, fr)
            return I.lift(r if isinstance(op, ast.In) else not r)
        if isinstance(op, (ast.Lt, ast.LtE, ast.Gt, ast.GtE)):
            if isinstance(a, (IntV, FloatV)) and isinstance(b, (IntV, FloatV)):
                f = {ast.Lt: lambda x, y: x < y, ast.LtE: lambda x, y: x <= y, ast.Gt: lambda x, y: x > y,
                     ast.GtE: lambda x, y: x >= y}[type(op)]
                return I.lift(f(a.v, b.v))
            if isinstance(a, Obj):
                name = {ast.Lt: "__lt__", ast.LtE: "__le__", ast.Gt: "__gt__", ast.GtE: "__ge__"}[type(op)]
                m = a.cls.find_method(name)
                if m is not None:
                    return I.call_func(m, [b], {}, a, node, fr)
            if isinstance(a, Str) and isinstance(b, Str) and a.is_concrete() and b.is_concrete():
                f = {ast.Lt: lambda x, y: x < y, ast.LtE: lambda x, y: x <= y, ast.Gt: lambda x, y: x > y,
                     ast.GtE: lambda x, y: x >= y}[type(op)]
                return I.lift(f(a.text(), b.text()))
            opname = {ast.Lt: "<", ast.LtE: "<=", ast.Gt: ">", ast.GtE: ">="}[type(op)]
            return SymBool(f"({I.show(a)}{opname}{I.show(b)})", False, {"cmp": opname, "args": [a, b]})
        raise I.unsupported(f"comparison {type(op).__name__}", node, fr)

    def contains(self, container: Value, item: Value, node, fr) -> bool:
        I = self.I
        label = self.I.up(node) if node is not None else "in"
        container = self.use_iter(container)    # `x in <iterator>` consumes the iterator
        if isinstance(container, ListV) and container.absorbed is not None:
            container = container.absorbed
        if isinstance(container, Obj):
            m = container.cls.find_method("__contains__")
            if m is not None:
                return I.truth(I.call_func(m, [item], {}, container, node, fr), label)
        if isinstance(container, (ListV, TupleV, SetV)):
            unknown = False
            for x in container.items:
                r = I.try_equals(item, x)
                if r is True:
                    return True
                if r is None:
                    unknown = True
            if not unknown:
                return False
            return I.run.assume(("in", I.value_key(item), tuple(repr(x) for x in container.items)), label)
        if isinstance(container, DictV):
            unknown = False
            for k, _ in container.pairs:
                r = I.try_equals(item, k)
                if r is True:
                    return True
                if r is None:
                    unknown = True
            if not unknown:
                return False
            return I.run.assume(("in", I.value_key(item), tuple(repr(k) for k, _ in container.pairs)), label)
        if isinstance(container, Str) and isinstance(item, Str):
            if container.is_concrete() and item.is_concrete():
                return item.text() in container.text()
            if item.is_concrete():
                t = item.text()
                if any(isinstance(a, Lit) and t in a for a in container.atoms):
                    return True
                from . import tokrx
                if tokrx.is_tok_template(container) and t:
                    try:
                        return tokrx.t_contains(container, t)
                    except tokrx.Undecided:
                        pass
                h = container.single_hole()
                if h is not None and h.oracle is not None:
                    r = h.oracle("contains", t)
                    if r is not None:
                        return r
                holes_ = [x for x in container.atoms if not isinstance(x, Lit)]
                if h is None and len(holes_) == 1 and isinstance(holes_[0], Hole) and holes_[0].oracle is not None:
                    o = holes_[0].oracle
                    if o("contains", t) is False and all(o("startswith", t[k:]) is False for k in range(1, len(t))) and \
                            all(o("endswith", t[:k]) is False for k in range(1, len(t))):
                        return False
            return I.run.assume(("in", I.value_key(item), I.value_key(container)), label)
        if isinstance(container, (Unknown, AbsList, Str)):
            return I.run.assume(("in", I.value_key(item), I.value_key(container)), label)
        if isinstance(container, ClassV) and container.cls.is_enum:
            return isinstance(item, EnumV) and item.cls is container.cls
        if isinstance(container, (IntV, BoolV, FloatV)) or container is NONE:
            I.raise_exc("TypeError", [Str.lit("argument of this type is not iterable")], node, fr)
        raise I.unsupported(f"`in` on {container!r}", node, fr)

    # ------------------------------------------------------------------ subscripts
    def subscript(self, base: Value, idx: Value, node, fr) -> Value:
        I = self.I
        base = I.as_tuple(base)
        if isinstance(base, ListV) and base.absorbed is not None:
            base = base.absorbed
        if isinstance(base, (ListV, TupleV)):
            if isinstance(idx, (BoolV, SymBool)):
                # a sequence indexed by a bool (False -> 0, True -> 1): decided like any other test of that bool
                idx = IntV(1 if I.truth(idx, I.up(node) if node is not None else "") else 0)
            if isinstance(idx, IntV):
                try:
                    return base.items[idx.v]
                except IndexError:
                    I.raise_exc("IndexError", [Str.lit("index out of range")], node, fr)
            return Unknown(I.run.new_tag(f"{base!r}[{I.show(idx)}]"))
        if isinstance(base, DictV):
            unknown = False
            for k, v in base.pairs:
                r = I.try_equals(idx, k)
                if r is True:
                    return v
                if r is None:
                    unknown = True
            if unknown:
                for k, v in base.pairs:
                    if I.try_equals(idx, k) is None and I.equals(idx, k):
                        return v
            I.raise_exc("KeyError", [idx], node, fr)
        if isinstance(base, AbsList):
            if "split" in base.flags and isinstance(base.flags.get("of"), Unknown) and isinstance(idx, IntV):
                # <opaque string>.split(sep)[i]: keep the position (the same rendering an opaque receiver always had)
                b, sep = base.flags["split"]
                return Unknown(f"{b}.split({sep!r})[{idx.v}]", {"recv": base.flags["of"], "index": idx,
                                                                "expr": f"{b}.split({sep!r})[{idx.v}]"})
            return base.elem
        if isinstance(base, Str):
            if base.is_concrete() and isinstance(idx, IntV):
                try:
                    return Str.lit(base.text()[idx.v])
                except IndexError:
                    I.raise_exc("IndexError", [Str.lit("string index out of range")], node, fr)
            if isinstance(idx, IntV) and idx.v >= 0 and base.atoms and isinstance(base.atoms[0], Lit) \
                    and len(base.atoms[0]) > idx.v:
                return Str.lit(base.atoms[0][idx.v])
            if isinstance(idx, IntV) and idx.v < 0 and base.atoms and isinstance(base.atoms[-1], Lit) \
                    and len(base.atoms[-1]) >= -idx.v:
                return Str.lit(base.atoms[-1][idx.v])
            h = base.single_hole()
            tag = f"{base.render()}[{I.show(idx)}]"
            if h is not None:
                return Str((h.derive(f"[{I.show(idx)}]"),))
            return Str((Hole(tag, "char"),))
        if isinstance(base, Unknown) and (isinstance(idx, IntV) or (isinstance(idx, Str) and idx.is_concrete())) and \
                ("group0" in base.meta or "template_groups" in base.meta or "concrete_groups" in base.meta):
            g = I.match_group(base, idx.v if isinstance(idx, IntV) else idx.text(), node, fr)
            if g is not None:
                return g
        if isinstance(base, Unknown):
            return Unknown(f"{base.tag}[{I.show(idx)}]", {"recv": base, "index": idx,
                                                          "expr": f"{I.expr_of(base)}[{I.expr_of(idx)}]"})
        if isinstance(base, (Extern, ClassV)):
            return base  # typing generics: List[int]
        raise I.unsupported(f"subscript of {base!r}", node, fr)

    def slice(self, base: Value, lo: Value, hi: Value, step: Value, node, fr) -> Value:
        I = self.I

        def idx(v: Value) -> Any:
            if v is NONE:
                return None
            if isinstance(v, IntV):
                return v.v
            return "?"
        l, h, s = idx(lo), idx(hi), idx(step)
        if isinstance(base, ListV) and base.absorbed is not None:
            base = base.absorbed
        if "?" not in (l, h, s):
            if isinstance(base, (ListV, TupleV)):
                items = base.items[l:h:s]
                return ListV(items) if isinstance(base, ListV) else TupleV(items)
            if isinstance(base, Str) and base.is_concrete():
                return Str.lit(base.text()[l:h:s])
            if isinstance(base, Str) and s is None:
                atoms = list(base.atoms)
                ok = True
                if l is not None and l > 0:
                    if atoms and isinstance(atoms[0], Lit) and len(atoms[0]) >= l:
                        atoms[0] = Lit(atoms[0][l:])
                    else:
                        ok = False
                elif l is not None and l != 0:
                    ok = False
                if h is not None and h < 0:
                    if atoms and isinstance(atoms[-1], Lit) and len(atoms[-1]) >= -h:
                        atoms[-1] = Lit(atoms[-1][:h])
                    else:
                        ok = False
                elif h is not None:
                    ok = False
                if ok:
                    return Str(tuple(atoms))
                hl = base.single_hole()
                op = f"[{'' if l is None else l}:{'' if h is None else h}]"
                if hl is not None:
                    return Str((hl.derive(op),))
                return Str((Hole(f"{base.render()}{op}", "slice", meta={"of": base}),))
            if isinstance(base, AbsList):
                return base.with_flags(sliced=f"[{l}:{h}:{s}]")
        if isinstance(base, Unknown):
            return Unknown(f"{base.tag}[{l}:{h}:{s}]", {"recv": base, "slice": (l, h, s)})
        if isinstance(base, AbsList):
            return base.with_flags(sliced="[?]")
        raise I.unsupported(f"slice of {base!r}", node, fr)

    def store_subscript(self, base: Value, idx: Value, v: Value, node, fr) -> None:
        I = self.I
        if isinstance(base, ListV) and base.absorbed is None and isinstance(idx, IntV):
            try:
                base.items[idx.v] = v
            except IndexError:
                I.raise_exc("IndexError", [], node, fr)
            return
        if isinstance(base, DictV):
            if fr is not None and fr.abs_loop:
                # a container that outlives one iteration is written inside a loop over unknown data
                I.run.event("loop_carried_store", target=base, index=idx, value=v, node=node,
                            func=(fr.func.qualname if fr.func else ""))
            for i, (k, _) in enumerate(base.pairs):
                if I.try_equals(idx, k) is True:
                    base.pairs[i] = (k, v)
                    return
            base.pairs.append((idx, v))
            return
        if isinstance(base, (Unknown, AbsList)):
            I.run.event("setitem_unknown", target=base, index=idx, value=v, node=node,
                        func=(fr.func.qualname if fr and fr.func else ""))
            return
        raise I.unsupported(f"item store on {base!r}", node, fr)

    def unpack(self, v: Value, n: int, node, fr) -> List[Value]:
        I = self.I
        v = I.as_tuple(v)
        if isinstance(v, (ListV, TupleV)) and getattr(v, "absorbed", None) is None:
            if len(v.items) != n:
                I.raise_exc("ValueError", [Str.lit("unpack length mismatch")], node, fr)
            return list(v.items)
        if isinstance(v, Unknown):
            return [self.subscript(v, IntV(i), node, fr) for i in range(n)]      # a, b = u  is  a = u[0]; b = u[1]
        if isinstance(v, AbsList):
            if "split" in v.flags:
                base, sep = v.flags["split"]
                return [Str((Hole(f"{base}.split({sep!r})[{i}]", "split", meta={"split_of": base, "sep": sep,
                                                                                 "index": i, "of": v.flags.get("of")}),))
                        for i in range(n)]
            return [v.elem for _ in range(n)]
        raise I.unsupported(f"unpack of {v!r}", node, fr)

    # ------------------------------------------------------------------ iteration
    def one_shot(self, v: Value) -> bool:
        """is v an iterator (generator object, regex.finditer result, zip/map/filter ...): usable once"""
        return bool(getattr(v, "one_shot", False)) or (isinstance(v, Unknown) and bool(v.meta.get("one_shot")))

    def use_iter(self, v: Value) -> Value:
        """what iterating v now gives: v itself the first time an iterator is consumed, nothing afterwards"""
        if not self.one_shot(v):
            return v
        used = self.I.run.user.setdefault("$consumed", {})
        if id(v) in used:
            self.I.run.event("iterator_reused", value=v)
            return ListV([])
        used[id(v)] = v       # keep the object alive: ids must stay unique for the run
        return v

    def iterate(self, it: Value, node, fr) -> Iterator[Tuple[str, Value, str]]:
        I = self.I
        it = I.as_tuple(self.use_iter(it))
        if isinstance(it, ListV) and it.absorbed is not None:
            it = it.absorbed
        if isinstance(it, ListV) and getattr(it, "is_iter", False):
            # an iterator object: a loop over it and next() calls inside the loop body draw from the same supply
            while it.items:
                yield ("conc", it.items.pop(0), "")
            return
        if isinstance(it, (ListV, TupleV, SetV)):
            for x in list(it.items):
                yield ("conc", x, "")
            return
        if isinstance(it, DictV):
            for k, _ in list(it.pairs):
                yield ("conc", k, "")
            return
        if isinstance(it, AbsList):
            if it.flags.get("nonempty") or I.truth(it, f"{it.src} is non-empty"):
                yield ("abs", it.elem, it.src)
            return
        if isinstance(it, Str) and it.is_concrete():
            for ch in it.text():
                yield ("conc", Str.lit(ch), "")
            return
        if isinstance(it, ClassV) and it.cls.is_enum:
            for name in it.cls.attrs:
                yield ("conc", EnumV(it.cls, name), "")
            return
        if isinstance(it, Unknown):
            if I.run.assume(("truth", "u", it.tag + "#iter"), f"{it.tag} yields an element"):
                em = {"elem_of": it, "not_none": True, "expr": f"{I.expr_of(it)}[*]"}
                if it.meta.get("elem_truthy"):
                    em["truthy"] = True
                yield ("abs", Unknown(f"{it.tag}[*]", em), it.tag)
            return
        raise I.unsupported(f"iteration over {it!r}", node, fr)

    def comprehension(self, node, elt: ast.expr, gens: List[ast.comprehension], fr, kind: str) -> Value:
        I = self.I
        if len(gens) != 1:
            return self.nested_comprehension(node, elt, gens, fr)
        g = gens[0]
        it = I.eval(g.iter, fr)
        if isinstance(it, (AbsList, Unknown)) or (isinstance(it, ListV) and it.absorbed is not None):
            it = self.use_iter(it)          # (concrete iterables are consumed by iterate() below)
        if isinstance(it, ListV) and it.absorbed is not None:
            it = it.absorbed
        saved = dict(fr.locals)
        try:
            if isinstance(it, (AbsList, Unknown)):
                if isinstance(it, AbsList):
                    elem, src, flags = it.elem, it.src, dict(it.flags)
                else:
                    elem, src, flags = Unknown(f"{it.tag}[*]", {"elem_of": it, "not_none": True}), it.tag, {}
                # `... for x in xs if isinstance(x, T)`: what survives the filter is a T. The surviving element is a
                # refined copy (own tag, same expression), so nothing is assumed about the unfiltered elements
                if isinstance(elem, Unknown) and elem.meta.get("type") is None and isinstance(g.target, ast.Name):
                    tests = [c for c in g.ifs if isinstance(c, ast.Call) and isinstance(c.func, ast.Name) and
                             c.func.id == "isinstance" and len(c.args) == 2 and not c.keywords and
                             isinstance(c.args[0], ast.Name) and c.args[0].id == g.target.id]
                    if tests:
                        refined = Unknown(I.run.new_tag(elem.tag + "|filtered"), dict(elem.meta, refined_from=elem,
                                                                                      expr=I.expr_of(elem)))
                        for c in tests:
                            names = self.type_names(I.eval(c.args[1], fr), c, fr)
                            if len(names) == 1:
                                I.run.set_assumption(("isinstance", refined.tag, names[0]), True)
                        elem = refined
                I.assign(g.target, elem, fr)
                filters = list(flags.get("filters", []))
                for cond in g.ifs:
                    filters.append(self.I.up(cond))
                    # evaluate the filter only for its effects on path assumptions: keep the element
                flags["filters"] = filters
                if not filters:
                    flags.pop("filters")
                fr.abs_loop.append(src)
                try:
                    v = I.eval(elt, fr)
                finally:
                    fr.abs_loop.pop()
                return AbsList(v, src, flags)
            out: List[Value] = []
            for _, x, _ in self.iterate(it, node, fr):
                I.assign(g.target, x, fr)
                if all(I.truth(I.eval(c, fr), self.I.up(c)) for c in g.ifs):
                    out.append(I.eval(elt, fr))
            return ListV(out)
        finally:
            # comprehension variables do not leak
            for k in list(fr.locals):
                if k not in saved:
                    del fr.locals[k]
            fr.locals.update(saved)

    def nested_comprehension(self, node, elt: ast.expr, gens: List[ast.comprehension], fr) -> Value:
        """[elt for a in A for b in B(a) ...]: concrete iterables are unrolled; an abstract outer iterable with a
        concrete inner part gives a list of groups (flattened, in order)"""
        I = self.I
        saved = dict(fr.locals)

        def rec(k: int) -> List[Value]:
            if k == len(gens):
                return [I.eval(elt, fr)]
            g = gens[k]
            it = I.eval(g.iter, fr)
            if isinstance(it, ListV) and it.absorbed is not None:
                it = it.absorbed
            if isinstance(it, (AbsList, Unknown)):
                raise _AbstractOuter(k, it)
            out: List[Value] = []
            for _, x, _ in self.iterate(it, node, fr):
                I.assign(g.target, x, fr)
                if all(I.truth(I.eval(c, fr), I.up(c)) for c in g.ifs):
                    out.extend(rec(k + 1))
            return out
        try:
            try:
                return ListV(rec(0))
            except _AbstractOuter as ao:
                if ao.k != 0:
                    raise I.unsupported("comprehension with an abstract inner iterable", node, fr)
                it = ao.it
                g = gens[0]
                if g.ifs:
                    raise I.unsupported("filtered abstract outer generator in a nested comprehension", node, fr)
                elem = it.elem if isinstance(it, AbsList) else Unknown(f"{it.tag}[*]", {"elem_of": it, "not_none": True})
                src = it.src if isinstance(it, AbsList) else it.tag
                I.assign(g.target, elem, fr)
                fr.abs_loop.append(src)
                try:
                    inner_gens = gens[1:]

                    def rec2(k: int) -> List[Value]:
                        if k == len(inner_gens):
                            return [I.eval(elt, fr)]
                        gg = inner_gens[k]
                        it2 = I.eval(gg.iter, fr)
                        if not isinstance(it2, (ListV, TupleV)) or getattr(it2, "absorbed", None) is not None:
                            raise I.unsupported("comprehension with an abstract inner iterable", node, fr)
                        out2: List[Value] = []
                        for x in it2.items:
                            I.assign(gg.target, x, fr)
                            if all(I.truth(I.eval(c, fr), I.up(c)) for c in gg.ifs):
                                out2.extend(rec2(k + 1))
                        return out2
                    group = rec2(0)
                finally:
                    fr.abs_loop.pop()
                flags = dict(it.flags) if isinstance(it, AbsList) else {}
                flags["flattened_groups"] = True
                return AbsList(TupleV(group), src, flags)
        finally:
            for k in list(fr.locals):
                if k not in saved:
                    del fr.locals[k]
            fr.locals.update(saved)

    # ------------------------------------------------------------------ pattern matching
    def type_test(self, v: Value, tname: str, label: str) -> bool:
        I = self.I
        if isinstance(v, ListV) and v.absorbed is not None:
            v = v.absorbed
        known = {Str: {"str"}, IntV: {"int"}, BoolV: {"bool", "int"}, ListV: {"list"}, AbsList: {"list"},
                 DictV: {"dict"}, TupleV: {"tuple"}, SetV: {"set"}, FloatV: {"float"}}
        for t, names in known.items():
            if isinstance(v, t):
                if isinstance(v, Str):
                    h = v.single_hole()
                    if h is not None and h.meta.get("maybe_int") and tname in ("int", "str"):
                        return I.run.assume(("isinstance", h.tag, tname), f"isinstance({h.tag}, {tname})")
                return tname in names or tname == "object"
        if v is NONE:
            return tname in ("NoneType", "object")
        if isinstance(v, Obj):
            return any(c.name == tname for c in v.cls.mro()) or tname in v.cls.all_extern_bases() or tname == "object"
        if isinstance(v, EnumV):
            ext = set(v.cls.all_extern_bases())
            if "StrEnum" in ext:
                ext.add("str")
            if "IntEnum" in ext or "IntFlag" in ext:
                ext.add("int")
            return any(c.name == tname for c in v.cls.mro()) or tname in ("Enum", "object") or tname in ext
        if isinstance(v, ExcV):
            return I.exc_matches(v, tname)
        if isinstance(v, (Unknown, SymBool)):
            if isinstance(v, SymBool):
                return tname in ("bool", "int", "object")
            ty = v.meta.get("type")
            if ty is not None:
                return tname == ty or (ty == "bool" and tname == "int")
            r = I.run.assume(("isinstance", v.tag, tname), f"isinstance({v.tag}, {tname})")
            if r:
                for other in ("int", "str", "dict", "list", "tuple", "bool"):
                    if other != tname and not (other == "int" and tname == "bool") and \
                            not (other == "bool" and tname == "int"):
                        I.run.set_assumption(("isinstance", v.tag, other), False)
                if tname == "bool":
                    I.run.set_assumption(("isinstance", v.tag, "int"), True)
            return r
        if isinstance(v, (ClassV, FuncV, Extern, ModuleV, LambdaV)):
            return tname in ("object", "type") and isinstance(v, ClassV) or tname == "object"
        raise AnalysisError(f"type test of {v!r}")

    def type_names(self, t: Value, node, fr) -> List[str]:
        if isinstance(t, TupleV):
            out: List[str] = []
            for x in t.items:
                out.extend(self.type_names(x, node, fr))
            return out
        if isinstance(t, ClassV):
            return [t.cls.name]
        if isinstance(t, Extern):
            return [t.name.split(".")[-1]]
        if isinstance(t, Unknown):
            return ["?" + t.tag]
        raise self.I.unsupported(f"type expression {t!r}", node, fr)

    def match_pattern(self, subj: Value, pat: ast.pattern, fr, label: str) -> bool:
        I = self.I
        if isinstance(pat, ast.MatchAs):
            if pat.pattern is not None and not self.match_pattern(subj, pat.pattern, fr, label):
                return False
            if pat.name is not None:
                fr.locals[pat.name] = subj
            return True
        if isinstance(pat, ast.MatchOr):
            return any(self.match_pattern(subj, p, fr, label) for p in pat.patterns)
        if isinstance(pat, ast.MatchClass):
            if pat.patterns or pat.kwd_patterns:
                raise I.unsupported("class pattern with sub-patterns", pat, fr)
            tv = I.eval(pat.cls, fr)
            names = self.type_names(tv, pat, fr)
            return any(self.type_test(subj, n, label) for n in names)
        if isinstance(pat, ast.MatchValue):
            v = I.eval(pat.value, fr)
            return I.equals(subj, v, f"{label} == {self.I.up(pat.value)}")
        if isinstance(pat, ast.MatchSingleton):
            return I.equals(subj, I.lift(pat.value), f"{label} is {pat.value}")
        if isinstance(pat, ast.MatchMapping):
            # case {"k": p, ...}: the subject is a mapping that has every key, each value matching its sub-pattern
            if isinstance(subj, DictV):
                for kx, sub in zip(pat.keys, pat.patterns):
                    kv = I.eval(kx, fr)
                    hit = None
                    for k, v in subj.pairs:
                        r = I.try_equals(kv, k)
                        if r is True or (r is None and I.equals(kv, k)):
                            hit = v
                            break
                    if hit is None or not self.match_pattern(hit, sub, fr, label):
                        return False
                if pat.rest is not None:
                    used = [I.eval(kx, fr) for kx in pat.keys]
                    fr.locals[pat.rest] = DictV([(k, v) for k, v in subj.pairs if not any(I.try_equals(k, u) is True for u in used)])
                return True
            if isinstance(subj, Unknown) and subj.meta.get("type") is None and pat.rest is None:
                # an opaque subject: either a mapping with all these keys (values opaque), or not
                keys = [I.eval(kx, fr) for kx in pat.keys]
                if not I.run.assume(("match-mapping", subj.tag, tuple(I.expr_of(k) for k in keys)),
                                    f"{label} is a mapping with keys {[I.expr_of(k) for k in keys]}"):
                    return False
                I.run.set_assumption(("isinstance", subj.tag, "dict"), True)
                return all(self.match_pattern(self.subscript(subj, k, pat, fr), sub, fr, label) for k, sub in zip(keys, pat.patterns))
            if isinstance(subj, Unknown) and subj.meta.get("type") is None:
                raise I.unsupported("mapping pattern with **rest on an abstract subject", pat, fr)
            return False        # None, strings, numbers, lists, objects: not mappings
        if isinstance(pat, ast.MatchSequence):
            if isinstance(subj, ListV) and subj.absorbed is not None:
                raise I.unsupported("sequence pattern on an abstract list", pat, fr)
            if isinstance(subj, (ListV, TupleV)):
                if any(isinstance(x, ast.MatchStar) for x in pat.patterns):
                    raise I.unsupported("sequence pattern with a star", pat, fr)
                return len(subj.items) == len(pat.patterns) and all(
                    self.match_pattern(x, sp, fr, label) for x, sp in zip(subj.items, pat.patterns))
            if isinstance(subj, (Unknown, AbsList, SymBool)):
                raise I.unsupported("sequence pattern on an abstract subject", pat, fr)
            return False        # str is not a sequence for matching; None, numbers, mappings neither
        raise I.unsupported(f"pattern {type(pat).__name__}", pat, fr)

    # ------------------------------------------------------------------ list helpers
    def list_append(self, lst: ListV, v: Value, node, fr) -> None:
        I = self.I
        if fr is not None and fr.abs_loop:
            src = fr.abs_loop[-1]
            if lst.absorbed is None and not lst.items:
                # appended on this path for the loop's (abstract) element, and the loop body ran: not empty
                lst.absorbed = AbsList(v, src, {"nonempty": True})
                return
            if lst.absorbed is not None and lst.absorbed.src == src:
                if repr(lst.absorbed.elem) != repr(v):
                    lst.absorbed = AbsList(v, src, {"mixed": True})
                return
            lst.absorbed = AbsList(v, src, {"prefix_items": list(lst.items), "mixed": True})
            return
        if lst.absorbed is not None:
            lst.absorbed = lst.absorbed.with_flags(mixed=True, appended=True)
            return
        lst.items.append(v)

    def list_extend(self, lst: ListV, other: Value, node, fr) -> None:
        I = self.I
        if isinstance(other, ListV) and other.absorbed is not None:
            other = other.absorbed
        if isinstance(other, (ListV, TupleV)) and lst.absorbed is None and not (fr is not None and fr.abs_loop):
            lst.items.extend(other.items)
            return
        if isinstance(other, (ListV, TupleV)) and fr is not None and fr.abs_loop:
            # inside an abstract loop: the list becomes a repetition of the extended group
            src = fr.abs_loop[-1]
            if lst.absorbed is None:
                lst.absorbed = AbsList(TupleV(list(other.items)), src, {"prefix_items": list(lst.items),
                                                                        "flattened_groups": True})
                return
        if lst.absorbed is None:
            lst.absorbed = AbsList(Unknown(I.run.new_tag("extended_elem")), "extend",
                                   {"prefix_items": list(lst.items), "extended_with": other})
        else:
            lst.absorbed = lst.absorbed.with_flags(mixed=True, extended_with=other)

    # ------------------------------------------------------------------ methods on builtin values
    def method(self, v: Value, name: str, node, fr) -> Value:
        I = self.I
        if isinstance(v, (Str, ListV, AbsList, DictV, TupleV, SetV, IntV, BoolV, FloatV)) or v is NONE:
            if v is NONE:
                I.raise_exc("AttributeError", [Str.lit(f"NoneType has no attribute {name}")], node, fr)
            return Extern(f"${type(v).__name__}.{name}", v)
        if isinstance(v, FuncV):
            if name == "__name__":
                return Str.lit(v.func.name)
            return Unknown(f"{v.func.qualname}.{name}")
        if isinstance(v, LambdaV):
            return Unknown(f"lambda.{name}")
        raise I.unsupported(f"attribute {name} of {v!r}", node, fr)

    def str_method(self, s: Str, name: str, args: List[Value], kwargs: Dict[str, Value], node, fr) -> Value:
        I = self.I
        conc_args = all(I.is_concrete(a) for a in args) and all(I.is_concrete(a) for a in kwargs.values())
        if name == "join":
            return self.join(s, args[0], node, fr)
        if s.is_concrete() and conc_args and name in STR_METHODS and name != "format":
            try:
                r = getattr(s.text(), name)(*[I.py(a) for a in args], **{k: I.py(a) for k, a in kwargs.items()})
            except (ValueError, IndexError) as exc:
                I.raise_exc(type(exc).__name__, [Str.lit(str(exc))], node, fr)
            return I.lift(r)
        from . import tokrx
        if name in ("split", "rsplit"):
            # explicit spellings of the defaults: split(sep=x), split(x, -1), split(x, maxsplit=-1)
            if "sep" in kwargs and not args:
                args, kwargs = [kwargs["sep"]], {k: v for k, v in kwargs.items() if k != "sep"}
            if isinstance(kwargs.get("maxsplit"), IntV) and kwargs["maxsplit"].v == -1:
                kwargs = {k: v for k, v in kwargs.items() if k != "maxsplit"}
            if len(args) == 2 and isinstance(args[1], IntV) and args[1].v == -1:
                args = args[:1]
        if name == "replace" and len(args) == 3 and isinstance(args[2], IntV) and args[2].v == -1:
            args = args[:2]
        if tokrx.is_tok_template(s) and name in ("split", "replace") and not kwargs:
            try:
                if name == "split" and len(args) == 1 and isinstance(args[0], Str) and args[0].is_concrete():
                    return ListV(list(tokrx.t_split(s, args[0].text())))
                if name == "replace" and len(args) == 2 and all(isinstance(a, Str) and (a.is_concrete() or tokrx.is_tok_template(a)) for a in args):
                    return tokrx.t_replace(s, args[0], args[1])      # type: ignore[arg-type]
            except tokrx.Undecided:
                pass
        h = s.single_hole()
        argtxt = ",".join(I.show(a) for a in args)
        if name in ("startswith", "endswith"):
            if args and isinstance(args[0], TupleV):
                return I.lift(any(I.truth(self.str_method(s, name, [x], {}, node, fr)) for x in args[0].items))
            if args and isinstance(args[0], Str) and args[0].is_concrete():
                t = args[0].text()
                if not s.atoms:
                    return I.lift(t == "")          # the empty string
                edge = s.atoms[0] if name == "startswith" else s.atoms[-1]
                if isinstance(edge, Lit):
                    if len(edge) >= len(t):
                        return I.lift(edge.startswith(t) if name == "startswith" else edge.endswith(t))
                    part = t[:len(edge)] if name == "startswith" else t[-len(edge):]
                    if part != edge:
                        return FALSE
                if h is not None and h.oracle is not None:
                    r = h.oracle(name, t)
                    if r is not None:
                        return I.lift(r)
                if isinstance(edge, Hole) and edge.kind == "tok" and t:
                    # the template begins (ends) with a token: a character foreign to its alphabet cannot be there
                    if (t[0] if name == "startswith" else t[-1]) not in edge.meta.get("alphabet", ""):
                        return FALSE
                key = (name, s.render(), t)
                return I.lift(I.run.assume(key, f"{s.render()}.{name}({t!r})"))
            return I.lift(I.run.assume((name, s.render(), argtxt), f"{s.render()}.{name}({argtxt})"))
        if name in ("removesuffix", "removeprefix") and args and isinstance(args[0], Str) and args[0].is_concrete():
            t = args[0].text()
            atoms = list(s.atoms)
            if name == "removesuffix" and isinstance(atoms[-1], Lit):
                if atoms[-1].endswith(t):
                    atoms[-1] = Lit(atoms[-1][: len(atoms[-1]) - len(t)])
                    return Str(tuple(atoms))
                if len(atoms[-1]) >= len(t):
                    return s
            if name == "removeprefix" and isinstance(atoms[0], Lit):
                if atoms[0].startswith(t):
                    atoms[0] = Lit(atoms[0][len(t):])
                    return Str(tuple(atoms))
                if len(atoms[0]) >= len(t):
                    return s
            if h is not None:
                return Str((h.derive(f"{name}({t!r})"),))
            return Str((Hole(f"{s.render()}.{name}({t!r})", "derived", meta={"of": s}),))
        if name in ("lower", "upper", "strip", "lstrip", "rstrip", "title", "capitalize", "zfill"):
            if h is not None:
                return Str((h.derive(f"{name}({argtxt})"),))
            if name in ("lower", "upper") and not args:
                atoms = []
                for a in s.atoms:
                    if isinstance(a, Lit):
                        atoms.append(Lit(getattr(str(a), name)()))
                    elif isinstance(a, Hole):
                        atoms.append(a.derive(f"{name}()"))
                    else:
                        atoms.append(Hole(I.run.new_tag(f"{name}_of_join"), "derived"))
                return Str(tuple(atoms))
            return Str((Hole(f"{s.render()}.{name}({argtxt})", "derived", meta={"of": s, "op": name,
                                                                                  "args": args}),))
        if name == "replace" and len(args) == 2 and s.is_concrete() and isinstance(args[0], Str) and \
                args[0].is_concrete() and isinstance(args[1], Str) and args[0].text() != "":
            pieces = s.text().split(args[0].text())
            out = Str.lit(pieces[0])
            for pc in pieces[1:]:
                out = out + args[1] + Str.lit(pc)
            return out
        if name == "replace" and len(args) == 2:
            old, new = args
            if isinstance(old, Str) and isinstance(new, Str) and old.is_concrete() and all(
                    isinstance(a, Lit) or (isinstance(a, Hole) and a.oracle is not None and
                                           a.oracle("contains", old.text()) is False) for a in s.atoms):
                return Str(tuple(Lit(a.replace(old.text(), new.text())) if isinstance(a, Lit) and new.is_concrete()
                                 else a for a in s.atoms)) if new.is_concrete() else Str(
                    (Hole(f"{s.render()}.replace({argtxt})", "derived", meta={"of": s, "op": "replace",
                                                                               "args": args}),))
            return Str((Hole(f"{s.render()}.replace({argtxt})", "derived",
                             meta={"of": s, "op": "replace", "args": args}),))
        if name in ("split", "rsplit", "splitlines"):
            sep = args[0] if args else NONE
            septxt = sep.text() if isinstance(sep, Str) and sep.is_concrete() else I.show(sep)
            return AbsList(Str((Hole(f"{s.render()}.split({septxt!r})[*]", "split",
                                     meta={"split_of": s.render(), "sep": septxt, "of": s}),)),
                           f"{s.render()}.split({septxt!r})",
                           {"nonempty": True, "split": (s.render(), septxt), "of": s,
                            "maxsplit": (I.show(args[1]) if len(args) > 1 else None)})
        if name in ("isdigit", "isalnum", "isalpha"):
            return I.lift(I.run.assume((name, s.render()), f"{s.render()}.{name}()"))
        if name in ("find", "count", "index"):
            return Unknown(I.run.new_tag(f"{s.render()}.{name}({argtxt})"), {"type": "int"})
        if name == "format":
            return Str((Hole(I.run.new_tag("str.format"), "formatted", meta={"fmt": s, "args": args}),))
        if name == "encode":
            return Unknown(I.run.new_tag("bytes"))
        if name in ("partition", "rpartition") and len(args) == 1 and not kwargs and isinstance(args[0], Str) and \
                args[0].is_concrete() and tokrx.is_tok_template(s):
            # on a token template: exact whenever the separator cannot hide inside a token
            try:
                pieces = list(tokrx.t_split(s, args[0].text()))
                sep = args[0]
                if len(pieces) == 1:
                    return TupleV([pieces[0], Str.lit(""), Str.lit("")] if name == "partition" else [Str.lit(""), Str.lit(""), pieces[0]])

                def glue(ps):
                    out = ps[0]
                    for x in ps[1:]:
                        out = out + sep + x
                    return out
                if name == "partition":
                    return TupleV([pieces[0], sep, glue(pieces[1:])])
                return TupleV([glue(pieces[:-1]), sep, pieces[-1]])
            except tokrx.Undecided:
                pass
        if name in ("partition", "rpartition"):
            return Unknown(I.run.new_tag(f"{s.render()}.{name}({argtxt})"),
                           {"expr": f"{I.expr_of(s)}.{name}({', '.join(I.expr_of(a) for a in args)})", "not_none": True})
        if name not in dir(str):
            I.raise_exc("AttributeError", [Str.lit(f"'str' object has no attribute '{name}'")], node, fr)
        raise I.unsupported(f"str.{name} on {s!r}", node, fr)

    def join(self, sep: Str, it: Value, node, fr) -> Value:
        I = self.I
        if isinstance(it, ListV) and it.absorbed is not None:
            it = it.absorbed
        if not sep.is_concrete():
            raise I.unsupported("join with abstract separator", node, fr)
        if isinstance(it, (ListV, TupleV)):
            out = Str(())
            for i, x in enumerate(it.items):
                if i:
                    out = out + sep
                if isinstance(x, Unknown):
                    x = self.to_str(x, node, fr)
                if not isinstance(x, Str):
                    I.raise_exc("TypeError", [Str.lit("sequence item: expected str")], node, fr)
                out = out + x
            return out
        if isinstance(it, AbsList):
            elem = it.elem
            if isinstance(elem, Unknown):
                elem = self.to_str(elem, node, fr)
            if isinstance(elem, TupleV):
                raise I.unsupported("join over grouped abstract list", node, fr)
            if not isinstance(elem, Str):
                raise I.unsupported(f"join over list of {elem!r}", node, fr)
            flags = {k: v for k, v in it.flags.items() if k in ("filters", "perm", "order", "sliced", "mixed",
                                                                 "perm_r", "prefix_items", "dedup")}
            if "split" in it.flags:
                flags["split"] = it.flags["split"]
            return Str((Join(sep.text(), elem, it.src, flags),))
        if isinstance(it, Unknown):
            return Str((Join(sep.text(), Str((Hole(f"{it.tag}[*]", "unknown"),)), it.tag, {}),))
        raise I.unsupported(f"join over {it!r}", node, fr)

    # ------------------------------------------------------------------ extern calls
    def call_extern(self, f: Extern, args: List[Value], kwargs: Dict[str, Value], node, fr) -> Value:
        I = self.I
        name = f.name
        recv = f.recv
        if name == "$subclasses":
            return ListV(list(recv.items))      # type: ignore[union-attr]
        if name == "$partial":
            f0, a0, k0 = recv.items      # type: ignore[union-attr]
            kw = {k.text(): v for k, v in k0.pairs}
            kw.update(kwargs)
            return I.call_value(f0, list(a0.items) + list(args), kw, node, fr)
        if name.startswith("$namedtuple."):
            what = name.split(".", 1)[1]
            if what == "_asdict" and isinstance(recv, Obj):
                return DictV([(Str.lit(n), recv.fields[n]) for n in recv.nt_order])      # type: ignore[attr-defined]
            if what == "_fields" and isinstance(recv, Obj):
                return TupleV([Str.lit(n) for n in recv.nt_order])      # type: ignore[attr-defined]
            if what == "_replace" and isinstance(recv, Obj) and not args:
                vals = {n: recv.fields[n] for n in recv.nt_order}      # type: ignore[attr-defined]
                for k, v in kwargs.items():
                    if k not in vals:
                        I.raise_exc("ValueError", [Str.lit(f"Got unexpected field names: {k}")], node, fr)
                    vals[k] = v
                return I.construct(recv.cls, [], vals, node, fr)
            if what == "_make" and isinstance(recv, ClassV) and len(args) == 1:
                seq = I.as_tuple(args[0])
                if isinstance(seq, (ListV, TupleV)) and getattr(seq, "absorbed", None) is None:
                    return I.construct(recv.cls, list(seq.items), {}, node, fr)
            raise I.unsupported(f"NamedTuple {what} with these arguments", node, fr)
        # methods of builtin values
        if name.startswith("$"):
            tname, meth = name[1:].split(".", 1)
            return self.value_method(recv, meth, args, kwargs, node, fr)
        key = "extern:" + name
        if key in I.summaries:
            r = I.summaries[key](I, None, recv, args, kwargs, node, fr)
            if r is not NotImplemented:
                return r
        short = name.split(".")[-1]
        if fr is not None and fr.try_depth > 0:
            for k, excs in self.MAY_RAISE.items():
                if name == k or name.endswith("." + k):
                    if k == "int" and args and I.is_concrete(args[0]):
                        break
                    for ex in excs:
                        if not I.run.assume(("noraise", I.run.new_tag(name), ex), f"{name}() does not raise {ex}"):
                            I.run.event("extern_raise", name=name, exc=ex, node=node)
                            I.raise_exc(ex, [Unknown(I.run.new_tag(f"{ex}_from_{name}"))], node, fr)
                    break
        m = getattr(self, "x_" + name.replace(".", "_"), None)
        if m is None and name in self.BUILTIN_NAMES:
            m = getattr(self, "x_" + short, None)
        if m is not None:
            return m(args, kwargs, node, fr)
        if short in self.EXC_NAMES or (short.endswith("Error") and short[0].isupper()) or short.endswith("Exception"):
            return ExcV(short, args)
        I.run.event("extern_call", name=name, args=args, kwargs=kwargs, node=node, recv=recv,
                    func=(fr.func.qualname if fr and fr.func else ""), module=(fr.module if fr else ""))
        argtxt = ", ".join([I.expr_of(a) for a in args] + [f"{k}={I.expr_of(v)}" for k, v in kwargs.items()])
        return Unknown(I.run.new_tag(f"{name}(...)"), {"extern": name, "args": args, "kwargs": kwargs,
                                                        "expr": f"{name}({argtxt})"})

    def value_method(self, recv: Value, meth: str, args: List[Value], kwargs: Dict[str, Value], node, fr) -> Value:
        I = self.I
        if meth in ("update", "union", "extend", "intersection", "difference", "issubset", "issuperset", "isdisjoint",
                    "symmetric_difference", "join"):
            args = [self.use_iter(a) for a in args]      # these methods iterate their arguments: an iterator is used up
        if isinstance(recv, ListV) and recv.absorbed is not None and meth not in ("append", "extend"):
            recv = recv.absorbed
        if isinstance(recv, Str):
            return self.str_method(recv, meth, args, kwargs, node, fr)
        if isinstance(recv, ListV):
            if meth == "append":
                self.list_append(recv, args[0], node, fr)
                return NONE
            if meth == "extend":
                self.list_extend(recv, args[0], node, fr)
                return NONE
            if meth == "insert":
                if recv.absorbed is None and isinstance(args[0], IntV) and not fr.abs_loop:
                    recv.items.insert(args[0].v, args[1])
                else:
                    recv.absorbed = (recv.absorbed or AbsList(args[1], "insert")).with_flags(mixed=True, inserted=True)
                return NONE
            if meth == "copy":
                return ListV(list(recv.items))
            if meth == "index":
                for i, x in enumerate(recv.items):
                    if I.equals(x, args[0]):
                        return IntV(i)
                I.raise_exc("ValueError", [Str.lit("not in list")], node, fr)
            if meth == "pop":
                if recv.items:
                    return recv.items.pop(args[0].v if args and isinstance(args[0], IntV) else -1)
                I.raise_exc("IndexError", [Str.lit("pop from empty list")], node, fr)
            if meth in ("sort", "reverse", "clear", "remove"):
                if meth == "reverse":
                    recv.items.reverse()
                elif meth == "clear":
                    recv.items.clear()
                else:
                    raise I.unsupported(f"list.{meth}", node, fr)
                return NONE
            if meth == "count":
                return IntV(sum(1 for x in recv.items if I.equals(x, args[0])))
        if isinstance(recv, AbsList):
            if meth in ("append", "extend", "insert"):
                # the list object is mutated in place (every alias sees it): no longer a pure image of its source
                I.run.event("abslist_mutation", target=recv, method=meth, args=args, node=node)
                recv.flags["mixed"] = True
                recv.flags.setdefault("appended", []).append((meth, [I.expr_of(a) for a in args]))
                return NONE
            if meth == "copy":
                return recv
            if meth in ("sort", "reverse"):
                I.run.event("abslist_mutation", target=recv, method=meth, args=args, node=node)
                recv.flags["order"] = meth
                return NONE
            if meth in ("index", "count"):
                return Unknown(I.run.new_tag(f"{recv.src}.{meth}"), {"type": "int"})
        if isinstance(recv, DictV):
            if meth == "get":
                for k, v in recv.pairs:
                    if I.try_equals(args[0], k) is True:
                        return v
                for k, v in recv.pairs:
                    if I.try_equals(args[0], k) is None and I.equals(args[0], k):
                        return v
                return args[1] if len(args) > 1 else kwargs.get("default", NONE)
            if meth == "keys":
                return ListV([k for k, _ in recv.pairs])
            if meth == "values":
                return ListV([v for _, v in recv.pairs])
            if meth == "items":
                return ListV([TupleV([k, v]) for k, v in recv.pairs])
            if meth == "update":
                ps = self._pairs_of(args[0], node, fr) if args else []
                if ps is not None:
                    for k, v in ps:
                        self.store_subscript(recv, k, v, node, fr)
                    for k, v in kwargs.items():
                        self.store_subscript(recv, Str.lit(k), v, node, fr)
                    return NONE
            if meth == "copy":
                return DictV(list(recv.pairs))
            if meth == "clear":
                recv.pairs.clear()
                return NONE
            if meth == "pop":
                for i, (k, v) in enumerate(recv.pairs):
                    if I.equals(args[0], k):
                        del recv.pairs[i]
                        return v
                if len(args) > 1:
                    return args[1]
                I.raise_exc("KeyError", [args[0]], node, fr)
            if meth == "setdefault":
                for k, v in recv.pairs:
                    if I.equals(args[0], k):
                        return v
                recv.pairs.append((args[0], args[1] if len(args) > 1 else NONE))
                return recv.pairs[-1][1]
        if isinstance(recv, SetV):
            if meth in ("update", "union"):
                tgt = recv if meth == "update" else SetV(list(recv.items))
                for other in args:
                    if isinstance(other, ListV) and other.absorbed is not None:
                        raise I.unsupported("set.update with abstract list", node, fr)
                    for x in (other.items if isinstance(other, (ListV, TupleV, SetV)) else [k for k, _ in other.pairs] if isinstance(other, DictV) else []):
                        if not any(I.try_equals(x, y) is True for y in tgt.items):
                            tgt.items.append(x)
                return NONE if meth == "update" else tgt
            if meth == "copy":
                return SetV(list(recv.items))
            if meth == "add":
                if not any(I.try_equals(x, args[0]) is True for x in recv.items):
                    recv.items.append(args[0])
                return NONE
            if meth == "discard":
                recv.items = [x for x in recv.items if I.try_equals(x, args[0]) is not True]
                return NONE
            if meth == "clear":
                recv.items = []
                return NONE
            if meth in ("intersection", "difference", "issubset", "issuperset", "isdisjoint") and len(args) == 1:
                r = self.set_op(meth, recv, args[0], node, fr)
                if r is not None:
                    return r
        if isinstance(recv, TupleV) and meth in ("index", "count"):
            return Unknown(I.run.new_tag(f"tuple.{meth}"), {"type": "int"})
        if isinstance(recv, (IntV, BoolV, FloatV)) or recv is NONE:
            ty = "NoneType" if recv is NONE else type(recv).__name__[:-1].lower()
            known = {"int": dir(int), "bool": dir(bool), "float": dir(float), "NoneType": dir(None)}[ty]
            if meth not in known:
                I.raise_exc("AttributeError", [Str.lit(f"'{ty}' object has no attribute '{meth}'")], node, fr)
        raise I.unsupported(f"method {meth} on {recv!r}", node, fr)

    # ---- builtins ----------------------------------------------------------
    def x_str(self, args, kwargs, node, fr) -> Value:
        if not args:
            return Str.lit("")
        return self.to_str(args[0], node, fr)

    def x_repr(self, args, kwargs, node, fr) -> Value:
        return Str((Hole(self.I.run.new_tag("repr"), "repr"),))

    def x_int(self, args, kwargs, node, fr) -> Value:
        I = self.I
        v = args[0] if args else IntV(0)
        base = args[1] if len(args) > 1 else kwargs.get("base")
        if isinstance(v, IntV) and base is None:
            return v
        if isinstance(v, BoolV):
            return IntV(int(v.v))
        if isinstance(v, Str) and v.is_concrete() and (base is None or isinstance(base, IntV)):
            try:
                return IntV(int(v.text(), base.v) if base is not None else int(v.text()))
            except ValueError as exc:
                I.raise_exc("ValueError", [Str.lit(str(exc))], node, fr)
        return Unknown(f"int({I.show(v)}{','+I.show(base) if base is not None else ''})",
                       {"type": "int", "op": "int", "args": [v] + ([base] if base is not None else [])})

    def x_float(self, args, kwargs, node, fr) -> Value:
        return Unknown(self.I.run.new_tag("float"), {"type": "float"})

    def x_bool(self, args, kwargs, node, fr) -> Value:
        I = self.I
        if not args:
            return FALSE
        v = args[0]
        if isinstance(v, SymBool):
            return v
        if isinstance(v, Unknown) and "truthy" not in v.meta:
            return SymBool(v.tag, False, {"of": v})
        return I.lift(I.truth(v, self.I.up(node)))

    def x_len(self, args, kwargs, node, fr) -> Value:
        I = self.I
        v = I.as_tuple(args[0])
        if isinstance(v, ListV) and v.absorbed is not None:
            v = v.absorbed
        if isinstance(v, (ListV, TupleV, SetV)):
            return IntV(len(v.items))
        if isinstance(v, DictV):
            return IntV(len(v.pairs))
        if isinstance(v, Str) and v.is_concrete():
            return IntV(len(v.text()))
        if isinstance(v, Obj):
            m = v.cls.find_method("__len__")
            if m is not None:
                return I.call_func(m, [], {}, v, node, fr)
        tag = v.src if isinstance(v, AbsList) else I.show(v)
        return Unknown(f"len({tag})", {"type": "int", "op": "len", "args": [v]})

    def x_list(self, args, kwargs, node, fr) -> Value:
        args = [self.use_iter(args[0])] + list(args[1:]) if args and True else args
        I = self.I
        if not args:
            return ListV([])
        v = args[0]
        if isinstance(v, ListV) and v.absorbed is not None:
            return v.absorbed
        if isinstance(v, (ListV, TupleV, SetV)):
            return ListV(list(v.items))
        if isinstance(v, DictV):
            return ListV([k for k, _ in v.pairs])
        if isinstance(v, AbsList):
            return v
        if isinstance(v, Unknown):
            return AbsList(Unknown(f"{v.tag}[*]", {"elem_of": v}), v.tag, {"of_unknown": True})
        if isinstance(v, Str) and v.is_concrete():
            return ListV([Str.lit(c) for c in v.text()])
        raise I.unsupported(f"list() of {v!r}", node, fr)

    def x_tuple(self, args, kwargs, node, fr) -> Value:
        v = self.x_list(args, kwargs, node, fr)
        if isinstance(v, ListV):
            return TupleV(v.items)
        return v

    def x_set(self, args, kwargs, node, fr) -> Value:
        I = self.I
        if not args:
            return SetV([])
        v = args[0]
        if isinstance(v, (ListV, TupleV)) and getattr(v, "absorbed", None) is None:
            out: List[Value] = []
            for x in v.items:
                if not any(I.try_equals(x, y) is True for y in out):
                    out.append(x)
            return SetV(out)
        if isinstance(v, ListV):
            v = v.absorbed
        if isinstance(v, AbsList):
            return v.with_flags(dedup=True)
        return Unknown(I.run.new_tag("set"))

    x_frozenset = x_set

    def _pairs_of(self, v: Value, node, fr):
        """the (key, value) pairs of a concrete mapping or sequence of pairs, or None"""
        v = self.I.as_tuple(v)
        if isinstance(v, ListV) and v.absorbed is not None:
            return None
        if isinstance(v, DictV):
            return list(v.pairs)
        if isinstance(v, (ListV, TupleV)):
            out = []
            for x in v.items:
                x = self.I.as_tuple(x)
                if not (isinstance(x, (TupleV, ListV)) and len(x.items) == 2):
                    return None
                out.append((x.items[0], x.items[1]))
            return out
        return None

    def x_dict(self, args, kwargs, node, fr) -> Value:
        d = DictV([])
        if args:
            ps = self._pairs_of(args[0], node, fr)
            if ps is None:
                return Unknown(self.I.run.new_tag("dict"))
            for k, v in ps:
                self.store_subscript(d, k, v, node, fr)
        for k, v in kwargs.items():
            self.store_subscript(d, Str.lit(k), v, node, fr)
        return d

    def x_dict_fromkeys(self, args, kwargs, node, fr) -> Value:
        keys = self.I.as_tuple(args[0]) if args else NONE
        val = args[1] if len(args) > 1 else NONE
        if isinstance(keys, DictV):
            keys = ListV([k for k, _ in keys.pairs])
        if isinstance(keys, (ListV, TupleV, SetV)) and getattr(keys, "absorbed", None) is None:
            d = DictV([])
            for k in keys.items:
                self.store_subscript(d, k, val, node, fr)
            return d
        raise self.I.unsupported("dict.fromkeys over an abstract iterable", node, fr)

    def x_isinstance(self, args, kwargs, node, fr) -> Value:
        names = self.type_names(args[1], node, fr)
        label = self.I.up(node) if node is not None else "isinstance"
        return self.I.lift(any(self.type_test(args[0], n, label) for n in names))

    def x_issubclass(self, args, kwargs, node, fr) -> Value:
        a, b = args
        if isinstance(a, ClassV):
            names = self.type_names(b, node, fr)
            return self.I.lift(any(a.cls.is_subclass_of(n) for n in names))
        return SymBool(self.I.run.new_tag("issubclass"))

    def x_type(self, args, kwargs, node, fr) -> Value:
        v = args[0]
        if isinstance(v, Obj):
            return ClassV(v.cls)
        if isinstance(v, ExcV):
            return Extern(v.type_name)
        return Unknown(self.I.run.new_tag("type"))

    def x_enumerate(self, args, kwargs, node, fr) -> Value:
        args = [self.use_iter(args[0])] + list(args[1:]) if args and True else args
        I = self.I
        v = args[0]
        start = args[1].v if len(args) > 1 and isinstance(args[1], IntV) else 0
        if isinstance(v, ListV) and v.absorbed is not None:
            v = v.absorbed
        if isinstance(v, (ListV, TupleV)):
            return ListV([TupleV([IntV(i + start), x]) for i, x in enumerate(v.items)])
        if isinstance(v, AbsList):
            return AbsList(TupleV([Unknown(f"index_in_{v.src}", {"type": "int"}), v.elem]), v.src, dict(v.flags))
        if isinstance(v, Unknown):
            return AbsList(TupleV([Unknown(f"index_in_{v.tag}", {"type": "int"}),
                                   Unknown(f"{v.tag}[*]", {"elem_of": v, "not_none": True})]), v.tag, {})
        raise I.unsupported(f"enumerate of {v!r}", node, fr)

    def x_range(self, args, kwargs, node, fr) -> Value:
        if all(isinstance(a, IntV) for a in args):
            return ListV([IntV(i) for i in range(*[a.v for a in args])])
        return AbsList(Unknown(self.I.run.new_tag("range_index"), {"type": "int"}),
                       f"range({','.join(self.I.show(a) for a in args)})")

    def x_zip(self, args, kwargs, node, fr) -> Value:
        if all(isinstance(a, (ListV, TupleV)) and getattr(a, "absorbed", None) is None for a in args):
            return ListV([TupleV(list(t)) for t in zip(*[a.items for a in args])])
        return AbsList(TupleV([(a.elem if isinstance(a, AbsList) else Unknown(self.I.run.new_tag("zip_elem")))
                               for a in args]), "zip", {})

    def x_all(self, args, kwargs, node, fr) -> Value:
        args = [self.use_iter(args[0])] + list(args[1:]) if args and True else args
        I = self.I
        v = args[0]
        if isinstance(v, ListV) and v.absorbed is not None:
            v = v.absorbed
        if isinstance(v, (ListV, TupleV)):
            return I.lift(all(I.truth(x) for x in v.items))
        if isinstance(v, AbsList):
            if isinstance(v.elem, BoolV):
                return v.elem
            return SymBool(f"all({v.src}:{I.show(v.elem)})", False, {"all_of": v})
        return SymBool(I.run.new_tag("all"))

    def x_any(self, args, kwargs, node, fr) -> Value:
        args = [self.use_iter(args[0])] + list(args[1:]) if args and True else args
        I = self.I
        v = args[0]
        if isinstance(v, ListV) and v.absorbed is not None:
            v = v.absorbed
        if isinstance(v, (ListV, TupleV)):
            return I.lift(any(I.truth(x) for x in v.items))
        if isinstance(v, AbsList):
            return SymBool(f"any({v.src}:{I.show(v.elem)})", False, {"any_of": v})
        return SymBool(I.run.new_tag("any"))

    def x_sorted(self, args, kwargs, node, fr) -> Value:
        args = [self.use_iter(args[0])] + list(args[1:]) if args and True else args
        v = args[0]
        if isinstance(v, ListV) and v.absorbed is not None:
            v = v.absorbed
        key = kwargs.get("key")
        rev = kwargs.get("reverse")
        if isinstance(v, (ListV, TupleV, SetV)) and key is not None and key is not NONE:
            keys = [self.I.call_value(key, [x], {}, node, fr) for x in v.items]
            if all(self.I.is_concrete(k) for k in keys):
                order = sorted(range(len(keys)), key=lambda i: self.I.py(keys[i]),
                               reverse=bool(rev is not None and self.I.truth(rev)))
                return ListV([v.items[i] for i in order])
            return AbsList(Unknown(self.I.run.new_tag("sorted_elem")), "sorted(...)", {"order": "sorted", "of": v})
        if isinstance(v, AbsList):
            return v.with_flags(order="sorted")
        if isinstance(v, (ListV, TupleV, SetV)) and all(self.I.is_concrete(x) for x in v.items):
            try:
                return ListV([self.I.lift(x) for x in sorted(self.I.py(x) for x in v.items)])
            except TypeError:
                pass
        return AbsList(Unknown(self.I.run.new_tag("sorted_elem")), "sorted(...)", {"order": "sorted", "of": v})

    def x_reversed(self, args, kwargs, node, fr) -> Value:
        v = args[0]
        if isinstance(v, ListV) and v.absorbed is not None:
            v = v.absorbed
        if isinstance(v, AbsList):
            return v.with_flags(order="reversed")
        if isinstance(v, (ListV, TupleV)):
            return ListV(list(reversed(v.items)))
        return AbsList(Unknown(self.I.run.new_tag("reversed_elem")), "reversed(...)", {"order": "reversed"})

    def x_next(self, args, kwargs, node, fr) -> Value:
        args = [self.use_iter(args[0])] + list(args[1:]) if args and False else args
        I = self.I
        v = args[0]
        if isinstance(v, ListV) and v.absorbed is not None:
            v = v.absorbed
        if isinstance(v, DictV):
            I.raise_exc("TypeError", [Str.lit("'dict' object is not an iterator")], node, fr)
        if isinstance(v, (ListV, TupleV)):
            if v.items:
                if getattr(v, "is_iter", False):
                    return v.items.pop(0)
                return v.items[0]
            if len(args) > 1:
                return args[1]
            I.raise_exc("StopIteration", [], node, fr)
        if isinstance(v, AbsList):
            if I.truth(v, f"{v.src} is non-empty"):
                return v.elem
            if len(args) > 1:
                return args[1]
            I.raise_exc("StopIteration", [], node, fr)
        raise I.unsupported(f"next() of {v!r}", node, fr)

    def x_iter(self, args, kwargs, node, fr) -> Value:
        v = args[0]
        if isinstance(v, ListV) and v.absorbed is None or isinstance(v, (TupleV, SetV)):
            it = ListV(list(v.items))
        elif isinstance(v, DictV):
            it = ListV([k for k, _ in v.pairs])
        else:
            return v
        it.is_iter = True      # type: ignore[attr-defined]  (an iterator: next() consumes)
        return it

    def x_print(self, args, kwargs, node, fr) -> Value:
        self.I.run.event("print", args=args, node=node)
        return NONE

    def x_getattr(self, args, kwargs, node, fr) -> Value:
        I = self.I
        if isinstance(args[1], Str) and args[1].is_concrete():
            try:
                return I.get_attr(args[0], args[1].text(), node, fr)
            except Exception:
                if len(args) > 2:
                    return args[2]
                raise
        I.run.event("dynamic_getattr", args=args, node=node)
        return Unknown(I.run.new_tag("getattr"))

    def x_hasattr(self, args, kwargs, node, fr) -> Value:
        return SymBool(self.I.run.new_tag("hasattr"))

    def x_setattr(self, args, kwargs, node, fr) -> Value:
        I = self.I
        if isinstance(args[1], Str) and args[1].is_concrete():
            I.set_attr(args[0], args[1].text(), args[2], node, fr)
            return NONE
        raise I.unsupported("setattr with abstract name", node, fr)

    def x_open(self, args, kwargs, node, fr) -> Value:
        I = self.I
        f = args[0] if args else kwargs.get("file", NONE)
        mode = args[1] if len(args) > 1 else kwargs.get("mode", Str.lit("r"))
        I.run.event("open", file=f, mode=mode, node=node, func=(fr.func.qualname if fr and fr.func else ""),
                    args=list(args), kwargs=dict(kwargs))
        return Unknown(I.run.new_tag("file"), {"file_of": f, "mode": mode, "truthy": True, "not_none": True,
                                               "expr": f"open({I.expr_of(f)})"})

    def x_min(self, args, kwargs, node, fr) -> Value:
        if all(isinstance(a, IntV) for a in args) and len(args) > 1:
            return IntV(min(a.v for a in args))
        return Unknown(self.I.run.new_tag("min"))

    def x_max(self, args, kwargs, node, fr) -> Value:
        if all(isinstance(a, IntV) for a in args) and len(args) > 1:
            return IntV(max(a.v for a in args))
        return Unknown(self.I.run.new_tag("max"))

    def x_functools_partial(self, args, kwargs, node, fr) -> Value:
        # functools.partial(f, *a, **k): a callable that calls f with these arguments in front
        return Extern("$partial", TupleV([args[0], TupleV(list(args[1:])), DictV([(Str.lit(k), v) for k, v in kwargs.items()])]))

    x_partial = x_functools_partial

    def x_staticmethod(self, args, kwargs, node, fr) -> Value:
        # staticmethod(f) as a class-level value: f itself, never bound to an instance (FuncV values are not bound on lookup)
        return args[0]

    def x_object(self, args, kwargs, node, fr) -> Value:
        # a bare object(): only its identity matters (sentinels); equal to, and identical with, itself alone
        return Unknown(self.I.run.new_tag("object"), {"truthy": True, "not_none": True, "sentinel": True})

    def x_object___init__(self, args, kwargs, node, fr) -> Value:
        return NONE

    def x_object___new__(self, args, kwargs, node, fr) -> Value:
        if args and isinstance(args[0], ClassV):
            return Obj(args[0].cls)
        return Unknown(self.I.run.new_tag("object.__new__"))

    def x_ABC___init__(self, args, kwargs, node, fr) -> Value:
        return NONE

    # ---- regex / re --------------------------------------------------------
    def _rx_call(self, name, args, kwargs, node, fr, meta):
        I = self.I
        # the event names pattern and subject by keyword however the call passed them (positionally, or as the
        # receiver of a compiled pattern's method); `args` keeps the positional list as written
        ekw = dict(kwargs)
        if args:
            ekw.setdefault("pattern", args[0])
        if len(args) > 1:
            ekw.setdefault("string", args[1])
        I.run.event("extern_call", name=name, args=args, kwargs=ekw, node=node, recv=None,
                    func=(fr.func.qualname if fr and fr.func else ""), module=(fr.module if fr else ""))
        argtxt = ", ".join([I.expr_of(a) for a in args] + [f"{k}={I.expr_of(v)}" for k, v in kwargs.items()])
        m = {"extern": name, "args": args, "kwargs": kwargs, "expr": f"{name}({argtxt})"}
        m.update(meta)
        if meta.get("match_or_none"):
            # flags=0 written out is the default
            kwargs = {k: v for k, v in kwargs.items() if not (k == "flags" and isinstance(v, IntV) and v.v == 0)}
            if len(args) == 3 and isinstance(args[2], IntV) and args[2].v == 0:
                args = args[:2]
            pat = args[0] if args else kwargs.get("pattern")
            subj = args[1] if len(args) > 1 else kwargs.get("string")
            from . import tokrx
            if isinstance(pat, Str) and pat.is_concrete() and tokrx.is_tok_template(subj) and len(args) + len(kwargs) == 2:
                # a constant regex applied to a token template: matched exactly when every step is decidable
                try:
                    fn = name.split(".")[-1]
                    syms = tokrx.symbols(subj)
                    if fn == "search":
                        res = tokrx.search_groups(pat.text(), syms)
                    else:
                        res = tokrx.match_groups(pat.text(), syms, full=(fn == "fullmatch"))
                    if res is None:
                        return NONE
                    st, en, caps = res
                    ng = tokrx.n_groups(pat.text())
                    groups = [tokrx.template(syms[st:en])] + [
                        (tokrx.template(syms[caps[k][0]:caps[k][1]]) if k in caps else NONE) for k in range(1, ng + 1)]
                    m.update({"truthy": True, "not_none": True, "group0": groups[0], "template_groups": groups,
                              "span": (st, en), "pattern_text": pat.text(), "subject": subj})
                    m.pop("match_or_none", None)
                    return Unknown(I.run.new_tag(f"{name}(...)"), m)
                except tokrx.Undecided:
                    pass
            if isinstance(pat, Str) and pat.is_concrete() and isinstance(subj, Str) and subj.is_concrete() and \
                    len(args) + len(kwargs) <= 3:
                # a constant regex applied to a constant string: evaluate the constant
                import re as _pyre
                try:
                    fn = getattr(_pyre, name.split(".")[-1])
                    mo = fn(pat.text(), subj.text())
                    if mo is None:
                        return NONE
                    m["truthy"] = True
                    m["not_none"] = True
                    m.pop("match_or_none", None)
                    m["group0"] = Str.lit(mo.group(0))
                    m["concrete_groups"] = [mo.group(0)] + list(mo.groups())
                    m["pattern_text"] = pat.text()
                    return Unknown(I.run.new_tag(f"{name}(...)"), m)
                except Exception:
                    pass
            ck = ("$rxcall", name, I.expr_of(pat) if pat is not None else "", I.expr_of(subj) if subj is not None else "")
            if ck in I.run.const_cache:
                return I.run.const_cache[ck]
            if isinstance(pat, Str) and pat.is_concrete():
                m["group0"] = self._group0(name, pat.text(), subj)
                m["pattern_text"] = pat.text()
                m["subject"] = subj
            res = Unknown(I.run.new_tag(f"{name}(...)"), m)
            I.run.const_cache[ck] = res
            return res
        return Unknown(I.run.new_tag(f"{name}(...)"), m)

    def _group0(self, name: str, pattern: str, subj) -> Str:
        """the text matched by a concrete regex: an opaque string whose first/last characters are known
        when the pattern begins/ends with a literal"""
        from . import rx as _rx
        first = last = None
        try:
            ast_ = _rx.parse(pattern)
            f = _rx.first_leaves(ast_)
            l = _rx.last_leaves(ast_)
            if f and all(isinstance(x, _rx.Char) for x in f) and len({x.c for x in f}) == 1 and not _rx.nullable(ast_):
                first = f[0].c
            if l and all(isinstance(x, _rx.Char) for x in l) and len({x.c for x in l}) == 1 and not _rx.nullable(ast_):
                last = l[0].c
        except Exception:
            pass

        def oracle(op, arg, first=first, last=last):
            if op == "startswith" and first is not None and isinstance(arg, str) and len(arg) == 1:
                return arg == first
            if op == "endswith" and last is not None and isinstance(arg, str) and len(arg) == 1:
                return arg == last
            return None
        tag = f"match({pattern!r},{self.I.expr_of(subj)})"
        return Str((Hole(tag, "match", True, oracle, meta={"pattern": pattern, "subject": subj, "api": name}),))

    def x_regex_search(self, args, kwargs, node, fr) -> Value:
        return self._rx_call("regex.search", args, kwargs, node, fr, {"match_or_none": True})

    def x_regex_match(self, args, kwargs, node, fr) -> Value:
        return self._rx_call("regex.match", args, kwargs, node, fr, {"match_or_none": True})

    def x_regex_fullmatch(self, args, kwargs, node, fr) -> Value:
        return self._rx_call("regex.fullmatch", args, kwargs, node, fr, {"match_or_none": True})

    def x_regex_finditer(self, args, kwargs, node, fr) -> Value:
        return self._rx_call("regex.finditer", args, kwargs, node, fr, {"truthy": True, "elem_truthy": True, "one_shot": True})

    def x_re_match(self, args, kwargs, node, fr) -> Value:
        return self._rx_call("re.match", args, kwargs, node, fr, {"match_or_none": True})

    def x_re_search(self, args, kwargs, node, fr) -> Value:
        return self._rx_call("re.search", args, kwargs, node, fr, {"match_or_none": True})

    def x_re_fullmatch(self, args, kwargs, node, fr) -> Value:
        return self._rx_call("re.fullmatch", args, kwargs, node, fr, {"match_or_none": True})

    def x_re_sub(self, args, kwargs, node, fr) -> Value:
        I = self.I
        I.run.event("extern_call", name="re.sub", args=args, kwargs=kwargs, node=node, recv=None,
                    func=(fr.func.qualname if fr and fr.func else ""), module=(fr.module if fr else ""))
        argtxt = ", ".join(I.expr_of(a) for a in args)
        return Str((Hole(f"re.sub({argtxt})", "derived", None, meta={"op": "re.sub", "args": args}),))

    x_regex_sub = x_re_sub

    def x_re_escape(self, args, kwargs, node, fr) -> Value:
        import re as _pyre
        a = args[0]
        if isinstance(a, Str) and a.is_concrete():
            return Str.lit(_pyre.escape(a.text()))
        return Str((Hole(f"re.escape({self.I.expr_of(a)})", "derived"),))

    x_regex_escape = x_re_escape

    def x_re_compile(self, args, kwargs, node, fr) -> Value:
        pat = args[0] if args else kwargs.get("pattern")
        return Unknown(self.I.run.new_tag("re.compile"), {"compiled": ("re", pat), "truthy": True, "not_none": True,
                                                          "expr": f"re.compile({self.I.expr_of(pat)})",
                                                          "flags": [self.I.expr_of(a) for a in args[1:]]})

    def x_regex_compile(self, args, kwargs, node, fr) -> Value:
        pat = args[0] if args else kwargs.get("pattern")
        return Unknown(self.I.run.new_tag("regex.compile"), {"compiled": ("regex", pat), "truthy": True, "not_none": True,
                                                             "expr": f"regex.compile({self.I.expr_of(pat)})",
                                                             "flags": [self.I.expr_of(a) for a in args[1:]]})

    def x_re_split(self, args, kwargs, node, fr) -> Value:
        I = self.I
        pat = args[0] if args else kwargs.get("pattern")
        subj = args[1] if len(args) > 1 else kwargs.get("string")
        I.run.event("extern_call", name="re.split", args=args, kwargs=kwargs, node=node, recv=None,
                    func=(fr.func.qualname if fr and fr.func else ""), module=(fr.module if fr else ""))
        from . import tokrx
        extra_vals = list(args[2:]) + [v for k, v in kwargs.items() if k not in ("pattern", "string")]
        defaults_only = all(isinstance(v, IntV) and v.v == 0 for v in extra_vals)      # maxsplit=0, flags=0: re.split's defaults
        if isinstance(pat, Str) and pat.is_concrete() and tokrx.is_tok_template(subj) and defaults_only:
            try:
                return ListV(list(tokrx.split(pat.text(), subj)))     # type: ignore[arg-type]
            except tokrx.Undecided:
                pass
        ptxt = pat.text() if isinstance(pat, Str) and pat.is_concrete() else I.expr_of(pat)
        src = f"re.split({ptxt!r},{I.expr_of(subj)})"
        return AbsList(Str((Hole(src + "[*]", "piece", None, meta={"resplit_pattern": ptxt, "subject": subj}),)),
                       src, {"nonempty": True, "resplit": ptxt, "subject": subj,
                             "extra_args": [I.expr_of(a) for a in args[2:]] + [f"{k}={I.expr_of(v)}" for k, v in kwargs.items()
                                                                            if k not in ("pattern", "string")]})

    # ---- stdlib ------------------------------------------------------------
    def x_itertools_permutations(self, args, kwargs, node, fr) -> Value:
        I = self.I
        v = args[0]
        r = args[1] if len(args) > 1 else kwargs.get("r")
        if isinstance(v, ListV) and v.absorbed is not None:
            v = v.absorbed
        if isinstance(v, (ListV, TupleV)) and (r is None or isinstance(r, IntV)):
            import itertools
            return ListV([TupleV(list(p)) for p in itertools.permutations(v.items, r.v if r is not None else None)])
        if isinstance(v, AbsList):
            flags = {"perm": True}
            if r is not None:
                flags["perm_r"] = I.show(r)
            inner = AbsList(v.elem, v.src, dict(v.flags, **flags))
            return AbsList(inner, f"permutations({v.src})", {"perm_outer": True, "perm_r": flags.get("perm_r")})
        raise I.unsupported(f"permutations of {v!r}", node, fr)

    def x_copy_deepcopy(self, args, kwargs, node, fr) -> Value:
        I = self.I
        v = args[0]
        I.run.event("deepcopy", arg=v, node=node)
        return self.deepcopy(v)

    def x_copy_copy(self, args, kwargs, node, fr) -> Value:
        v = args[0]
        if isinstance(v, ListV):
            return ListV(list(v.items))
        if isinstance(v, DictV):
            return DictV(list(v.pairs))
        return v

    def deepcopy(self, v: Value) -> Value:
        if isinstance(v, ListV) and v.absorbed is None:
            return ListV([self.deepcopy(x) for x in v.items])
        if isinstance(v, DictV):
            return DictV([(k, self.deepcopy(x)) for k, x in v.pairs])
        if isinstance(v, TupleV):
            return TupleV([self.deepcopy(x) for x in v.items])
        if isinstance(v, Unknown):
            return Unknown(f"deepcopy({v.tag})", {"copy_of": v, **{k: x for k, x in v.meta.items() if k == "type"}})
        return v
