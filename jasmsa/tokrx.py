"""tokrx -- exact regex matching against *token templates*.

A token template is a string made of literal characters and token holes.  A token hole stands for a non-empty text
over a known alphabet (e.g. a register name: letters and digits; a constant: hex digits, 'x', '-') and is atomic: a
match boundary never falls inside it.  Against such a subject a regex (rx AST, possibly with name holes of its own)
can often be matched *exactly*: a literal or a class meets a literal character directly; a repeated class swallows a
token hole whose alphabet lies inside the class and stops at one whose alphabet is disjoint from it; a name hole of the
regex meets the subject hole (or literal text) it is identified with.  Whenever a step cannot be decided the matcher
raises Undecided - it never guesses.

Backtracking order is the engine's (first alternative first, greedy repeats longest first), so the span of the first
match found is the span Python's `re` reports."""
from __future__ import annotations

from typing import Any, Dict, Iterator, List, Optional, Sequence, Tuple, Union

from . import rx
from .facts import AnalysisError
from .values import Hole, Lit, Str

Sym = Union[str, Hole]          # one character, or one token hole


class Undecided(AnalysisError):
    pass


ALPHABETS = {
    "reg": "abcdefghijklmnopqrstuvwxyz0123456789",
    "hex": "0123456789abcdef",
    "num": "0123456789abcdefx-",       # 0x1f, -0x8, 16
    "dec": "0123456789",
    "sym": "abcdefghijklmnopqrstuvwxyzABCDEFGHIJKLMNOPQRSTUVWXYZ0123456789_@.+",
    # the same families without the letter 't': a token over them cannot hold (part of) the word `data16`, which keeps
    # whole-listing templates on one path
    "mn": "abcdefghijklmnopqrsuvwxyz0123456789",
    "symn": "abcdefghijklmnopqrsuvwxyzABCDEFGHIJKLMNOPQRSUVWXYZ0123456789_@.+",
}


def tok(tag: str, alpha: str) -> Hole:
    """a token hole: non-empty text over ALPHABETS[alpha]"""
    a = ALPHABETS[alpha]

    def oracle(op: str, arg: Any, a: str = a) -> Optional[bool]:
        if op in ("contains", "startswith", "endswith") and isinstance(arg, str) and arg:
            if any(ch not in a for ch in arg):
                return False
        if op == "eq" and isinstance(arg, str):
            if arg == "" or any(ch not in a for ch in arg):
                return False
        return None
    return Hole(tag, "tok", True, oracle, meta={"alpha": alpha, "alphabet": a})


def is_tok_template(s: Any) -> bool:
    return isinstance(s, Str) and bool(s.atoms) and all(isinstance(a, Lit) or (isinstance(a, Hole) and a.kind == "tok")
                                                         for a in s.atoms) and any(isinstance(a, Hole) for a in s.atoms)


def symbols(s: Union[Str, str]) -> List[Sym]:
    if isinstance(s, str):
        return list(s)
    out: List[Sym] = []
    for a in s.atoms:
        if isinstance(a, Lit):
            out.extend(a)
        elif isinstance(a, Hole) and a.kind == "tok":
            out.append(a)
        else:
            raise Undecided(f"not a token template: {s!r}")
    return out


def template(syms: Sequence[Sym]) -> Str:
    return Str(tuple(Lit(x) if isinstance(x, str) else x for x in syms))


def alphabet(h: Hole) -> str:
    return h.meta.get("alphabet", "")


class Matcher:
    def __init__(self, subject: Sequence[Sym], ident: Optional[Dict[str, List[Sym]]] = None, exists_mode: bool = False,
                 free: Optional[Dict[str, str]] = None) -> None:
        self.s = list(subject)
        self.ident = ident or {}
        # free[tag] = alphabet: a regex hole that stands for ANY non-empty text over that alphabet (used to show that NO
        # instantiation of a name makes the regex accept a subject: an over-approximation of the possible matches)
        self.free = free or {}
        # over-approximation (only ever used to prove that there is NO match): an undecidable step is taken as possible
        self.over = bool(free)
        # exists_mode: only the EXISTENCE of a match is asked (fullmatch): an undecidable branch is skipped and
        # remembered; a match found on another branch settles the question, otherwise the answer is Undecided
        self.exists_mode = exists_mode
        self.skipped: List[str] = []

    def _undecided(self, msg: str) -> None:
        if self.exists_mode:
            self.skipped.append(msg)
            return
        raise Undecided(msg)

    # ---- single-step leaves -------------------------------------------------
    def _leaf_char(self, node: rx.Node, pos: int) -> Optional[bool]:
        """does `node` (Char/Cls/AnyChar) match the ONE character at pos? None: the symbol is a hole"""
        if pos >= len(self.s):
            return False
        x = self.s[pos]
        if isinstance(x, Hole):
            return None
        if isinstance(node, rx.Char):
            return x == node.c
        if isinstance(node, rx.AnyChar):
            return x != "\n"
        if isinstance(node, rx.Cls):
            return node.matches(x)
        raise Undecided(f"leaf {node!r}")

    def _hole_vs_class(self, node: rx.Node, h: Hole) -> Optional[bool]:
        """True: every char of the hole's alphabet matches; False: none does; None: mixed"""
        a = alphabet(h)
        if not a:
            return None
        if isinstance(node, rx.Char):
            hits = [c == node.c for c in a]
        elif isinstance(node, rx.AnyChar):
            hits = [True for _ in a]
        elif isinstance(node, rx.Cls):
            hits = [node.matches(c) for c in a]
        else:
            return None
        if all(hits):
            return True
        if not any(hits):
            return False
        return None

    # ---- generator of (end position, capture spans), in the engine's priority order ----------
    def ends(self, node: rx.Node, pos: int, caps: Optional[Dict[int, Tuple[int, int]]] = None) -> Iterator[Tuple[int, Dict[int, Tuple[int, int]]]]:
        caps = caps or {}
        if isinstance(node, (rx.Char, rx.Cls, rx.AnyChar)):
            r = self._leaf_char(node, pos)
            if r is None:
                h = self.s[pos]
                hv = self._hole_vs_class(node, h)        # type: ignore[arg-type]
                if hv is False:
                    return
                if self.over:
                    yield pos + 1, caps       # possible when the token is this single character
                    return
                # follow the branch "the token is exactly this one character": a complete match found under that
                # assumption proves nothing (it is reported as undecided), but a branch that dies anyway is settled
                c2 = dict(caps)
                c2[-1] = (pos, pos + 1)
                yield pos + 1, c2
                return
                self._undecided(f"one-character element {node!r} meets token {h!r} of unknown length")
                return
            if r:
                yield pos + 1, caps
            return
        if isinstance(node, rx.Seq):
            yield from self._seq(node.items, 0, pos, caps)
            return
        if isinstance(node, rx.Alt):
            for b in node.branches:
                yield from self.ends(b, pos, caps)
            return
        if isinstance(node, rx.Group):
            if node.kind in ("nc", "atomic"):
                yield from self.ends(node.body, pos, caps)
                return
            if node.kind == "cap":
                for e, c in self.ends(node.body, pos, caps):
                    c2 = dict(c)
                    c2[node.index] = (pos, e)
                    yield e, c2
                return
            if node.kind in ("la", "nla"):
                ok = any(True for _ in self.ends(node.body, pos, caps))
                if ok == (node.kind == "la"):
                    yield pos, caps
                return
            raise Undecided(f"group kind {node.kind}")
        if isinstance(node, rx.Anchor):
            if node.kind == "^":
                if pos == 0:
                    yield pos, caps
                return
            if node.kind == "$":
                if pos == len(self.s) or (pos == len(self.s) - 1 and self.s[pos] == "\n"):
                    yield pos, caps
                return
            raise Undecided(f"anchor {node.kind}")
        if isinstance(node, rx.HoleN) and node.hole.tag in self.free:
            a = self.free[node.hole.tag]
            p = pos
            stops = []
            while p < len(self.s):
                x = self.s[p]
                if isinstance(x, Hole):
                    if not all(c in a for c in alphabet(x)):
                        if any(c in a for c in alphabet(x)):
                            self._undecided(f"free name {node.hole!r} meets token {x!r} whose alphabet is only partly inside")
                        break
                elif x not in a:
                    break
                p += 1
                stops.append(p)
            for e in reversed(stops):
                yield e, caps
            return
        if isinstance(node, rx.HoleN):
            want = self.ident.get(node.hole.tag)
            if want is None:
                raise Undecided(f"regex hole {node.hole!r} is not identified with subject text")
            if self.s[pos:pos + len(want)] == list(want):
                yield pos + len(want), caps
                return
            # a different token, or literal text, where the name is expected: decided only when alphabets exclude it
            nxt = self.s[pos] if pos < len(self.s) else None
            first = want[0] if want else None
            if nxt is None:
                return
            if isinstance(nxt, str) and isinstance(first, str):
                return                                   # literal vs literal, already compared unequal
            if isinstance(nxt, str) and isinstance(first, Hole):
                if nxt not in alphabet(first):
                    return
            if isinstance(nxt, Hole) and isinstance(first, str):
                if first not in alphabet(nxt):
                    return
            if isinstance(nxt, Hole) and isinstance(first, Hole):
                return                                   # distinct tokens: no match is claimed
            self._undecided(f"name {node.hole!r} against {nxt!r}")
            return
        if isinstance(node, rx.Rep):
            yield from self._rep(node, pos, caps)
            return
        if isinstance(node, rx.BackRef):
            if not isinstance(node.ref, int):
                raise Undecided("symbolic back-reference")
            span = caps.get(node.ref)
            if span is None:
                return                      # the group did not take part: the back-reference fails
            want = self.s[span[0]:span[1]]
            got = self.s[pos:pos + len(want)]
            if got == want:
                yield pos + len(want), caps
                return
            # different symbols: equal texts are possible only between tokens (or a token and literal text) - generic
            # tokens denote different texts, literal characters are compared exactly
            if all(isinstance(a, str) for a in want) and all(isinstance(b, str) for b in self.s[pos:pos + len(want) + 1]):
                return
            return
        raise Undecided(f"regex construct {type(node).__name__}")

    def _seq(self, items: List[rx.Node], i: int, pos: int, caps) -> Iterator[Tuple[int, dict]]:
        if i == len(items):
            yield pos, caps
            return
        for e, c in self.ends(items[i], pos, caps):
            yield from self._seq(items, i + 1, e, c)

    def _rep(self, node: rx.Rep, pos: int, caps) -> Iterator[Tuple[int, dict]]:
        lo = node.lo if isinstance(node.lo, int) else None
        hi = node.hi if (node.hi is None or isinstance(node.hi, int)) else "?"
        if lo is None or hi == "?" or node.whole is not None:
            raise Undecided("symbolic quantifier")
        body = rx.unwrap(node.body)
        if isinstance(body, (rx.Char, rx.Cls, rx.AnyChar)):
            # run of single-character elements: characters one by one, token holes wholesale
            stops = [pos]
            n_min = 0          # least number of characters consumed so far (a hole counts 1)
            p = pos
            taint_from: Optional[int] = None      # stops from this index on swallowed a token only partly inside the class
            while p < len(self.s):
                x = self.s[p]
                if isinstance(x, Hole):
                    hv = self._hole_vs_class(body, x)
                    if hv is None and not self.over and taint_from is None:
                        # the token may or may not lie inside the class: going on is an assumption (tainted); stopping here
                        # is what the clean alternatives below do (a stop inside the token continues like a stop before it)
                        taint_from = len(stops)
                    if hv is False:
                        break
                    if hi is not None and hi <= 64 and not self.over:
                        raise Undecided(f"small bound {hi} against a token of unknown length")
                else:
                    if not self._leaf_char(body, p):
                        break
                n_min += 1
                if hi is not None and n_min > hi:
                    break
                p += 1
                stops.append(p)
            order = stops[::-1] if not node.lazy else stops
            for e in order:
                consumed = stops.index(e)
                if consumed >= lo:
                    if taint_from is not None and consumed >= taint_from:
                        c2 = dict(caps)
                        c2[-1] = (pos, e)
                        yield e, c2
                    else:
                        yield e, caps
                elif any(isinstance(x, Hole) for x in self.s[pos:e]):
                    if self.over:
                        yield e, caps
                    else:
                        raise Undecided(f"at least {lo} characters wanted, tokens of unknown length consumed")
            return
        # general body: greedy, bounded recursion
        yield from self._rep_general(node.body, lo, hi, node.lazy, pos, 0, caps)

    def _rep_general(self, body: rx.Node, lo: int, hi: Optional[int], lazy: bool, pos: int, count: int, caps) -> Iterator[Tuple[int, dict]]:
        if count > 64:
            raise Undecided("repeat depth")
        can_more = hi is None or count < hi
        if lazy and count >= lo:
            yield pos, caps
        if can_more:
            for e, c in self.ends(body, pos, caps):
                if e == pos:
                    continue            # empty iteration: the engine does not loop on it
                yield from self._rep_general(body, lo, hi, lazy, e, count + 1, c)
        if not lazy and count >= lo:
            yield pos, caps


def _prep(pattern, subject, ident):
    ast_ = pattern if isinstance(pattern, rx.Node) else rx.parse(pattern)
    s = symbols(subject) if isinstance(subject, (Str, str)) else list(subject)
    return ast_, s, Matcher(s, ident)


def search_groups(pattern, subject, ident=None) -> Optional[Tuple[int, int, Dict[int, Tuple[int, int]]]]:
    """leftmost match: (start, end, capture spans) in symbol positions, None if there is none"""
    ast_, s, m = _prep(pattern, subject, ident)
    for start in range(len(s) + 1):
        tainted_ends = set()
        for e, c in m.ends(ast_, start):
            if -1 in c:
                tainted_ends.add(e)      # exists only if a token's text happens to fit: remember where it would end
                if len(tainted_ends) > 64:
                    break
                continue
            if tainted_ends - {e}:
                raise Undecided("a match that exists only under an assumption about a token's text would end elsewhere")
            return (start, e, c)
        if tainted_ends:
            raise Undecided("at this start only matches that depend on an assumption about a token's text exist")
    return None


def search(pattern, subject, ident=None) -> Optional[Tuple[int, int]]:
    r = search_groups(pattern, subject, ident)
    return None if r is None else (r[0], r[1])


def match_groups(pattern, subject, ident=None, full: bool = False) -> Optional[Tuple[int, int, Dict[int, Tuple[int, int]]]]:
    ast_, s, m = _prep(pattern, subject, ident)
    for e, c in m.ends(ast_, 0):
        if not full or e == len(s):
            if -1 in c:
                raise Undecided("the first match in priority order exists only under an assumption about a token's text")
            return (0, e, c)
    return None


def fullmatch(pattern, subject, ident=None, free=None) -> bool:
    ast_ = pattern if isinstance(pattern, rx.Node) else rx.parse(pattern)
    s = symbols(subject) if isinstance(subject, (Str, str)) else list(subject)
    m = Matcher(s, ident, exists_mode=True, free=free)
    for e, c in m.ends(ast_, 0):
        if e == len(s):
            if -1 in c:
                m.skipped.append("a match exists only if a token is one particular character")
                continue
            return True
    if m.skipped:
        raise Undecided(m.skipped[0])
    return False


def match_prefix(pattern, subject, ident=None) -> Optional[int]:
    r = match_groups(pattern, subject, ident)
    return None if r is None else r[1]


def n_groups(pattern) -> int:
    ast_ = pattern if isinstance(pattern, rx.Node) else rx.parse(pattern)
    return len(rx.groups(ast_, "cap"))


def split(pattern: Union[str, rx.Node], subject: Union[Str, str]) -> List[Str]:
    """re.split(pattern, subject) for a pattern without capturing groups"""
    ast_ = pattern if isinstance(pattern, rx.Node) else rx.parse(pattern)
    if rx.groups(ast_, "cap"):
        raise Undecided("split with capturing groups")
    s = symbols(subject)
    m = Matcher(s, None)
    out: List[Str] = []
    last = 0
    pos = 0
    while pos <= len(s):
        first = next(iter(m.ends(ast_, pos)), None)
        if first is None or first[0] == pos:
            pos += 1
            continue
        out.append(template(s[last:pos]))
        last = pos = first[0]
    out.append(template(s[last:]))
    return out


# ------------------------------------------------------------------ exact string operations on token templates
def t_split(s: Str, sep: str) -> List[Str]:
    """s.split(sep) when no token can contain a character of sep"""
    syms = symbols(s)
    if not sep or any(isinstance(x, Hole) and any(c in alphabet(x) for c in sep) for x in syms):
        raise Undecided("separator may occur inside a token")
    out: List[Str] = []
    cur: List[Sym] = []
    i = 0
    while i < len(syms):
        if syms[i:i + len(sep)] == list(sep):
            out.append(template(cur))
            cur = []
            i += len(sep)
        else:
            cur.append(syms[i])
            i += 1
    out.append(template(cur))
    return out


def t_replace(s: Str, old: Union[Str, str], new: Union[Str, str]) -> Str:
    """s.replace(old, new): every occurrence of old's symbol sequence; decided when no other occurrence can hide in tokens"""
    syms, o, n = symbols(s), symbols(old), symbols(new)
    if not o:
        raise Undecided("empty pattern")
    lits = [c for c in o if isinstance(c, str)]
    if not any(isinstance(c, Hole) for c in o):
        # a literal pattern could also occur inside (or across) tokens unless some character of it is foreign to all of them
        if not any(all(c not in alphabet(x) for x in syms if isinstance(x, Hole)) for c in lits):
            raise Undecided("literal pattern may occur inside a token")
    out: List[Sym] = []
    i = 0
    while i < len(syms):
        if syms[i:i + len(o)] == o:
            out.extend(n)
            i += len(o)
        else:
            out.append(syms[i])
            i += 1
    return template(out)


def t_contains(s: Str, sub: str) -> bool:
    syms = symbols(s)
    for i in range(len(syms) - len(sub) + 1):
        if syms[i:i + len(sub)] == list(sub):
            return True
    holes = [x for x in syms if isinstance(x, Hole)]
    lits = {x for x in syms if not isinstance(x, Hole)}
    if any(all(c not in alphabet(h) for h in holes) and c not in lits for c in sub):
        return False        # a character of sub that no token can hold and no literal text has
    if any(all(c not in alphabet(h) for h in holes) for c in sub):
        # some character of sub can only come from literal text, and the literal text does not hold sub
        # (sub cannot straddle a token either, since that character would have to be literal and adjacent)
        if len(sub) == 1:
            return False
        foreign = [c for c in sub if all(c not in alphabet(h) for h in holes)]
        if len(foreign) == len(sub):
            return False
    raise Undecided(f"{sub!r} in {s!r}")
