"""facts -- the resolved program: modules, imports, classes (MRO), functions, constants.

Everything is read from the working tree with `ast`; nothing of jasm is imported or run.
"""
from __future__ import annotations

import ast
import os
import pathlib
from dataclasses import dataclass, field
from typing import Dict, List, Optional, Tuple


class AnalysisError(Exception):
    """The analysis itself cannot vouch (vanished anchor, unsupported construct...). Exit code 2."""


def repo_root() -> pathlib.Path:
    return pathlib.Path(os.environ.get("JASMSA_REPO", "/repo"))


@dataclass
class FuncInfo:
    name: str
    module: str
    node: ast.FunctionDef
    cls: Optional["ClassInfo"] = None
    decorators: Tuple[str, ...] = ()

    @property
    def qualname(self) -> str:
        return f"{self.cls.name}.{self.name}" if self.cls else self.name

    @property
    def is_static(self) -> bool:
        return "staticmethod" in self.decorators

    @property
    def is_classmethod(self) -> bool:
        return "classmethod" in self.decorators

    @property
    def is_property(self) -> bool:
        return "property" in self.decorators

    @property
    def is_setter(self) -> bool:
        return any(d.endswith(".setter") for d in self.decorators)

    @property
    def is_abstract(self) -> bool:
        return "abstractmethod" in self.decorators

    def where(self) -> str:
        return f"{self.module.replace('.', '/')}.py:{self.node.lineno} {self.qualname}"


@dataclass
class ClassInfo:
    name: str
    module: str
    node: ast.ClassDef
    base_names: List[str] = field(default_factory=list)   # as written (dotted)
    bases: List["ClassInfo"] = field(default_factory=list)  # resolved repo classes
    extern_bases: List[str] = field(default_factory=list)
    methods: Dict[str, FuncInfo] = field(default_factory=dict)
    setters: Dict[str, FuncInfo] = field(default_factory=dict)
    attrs: Dict[str, ast.expr] = field(default_factory=dict)         # class-level NAME = expr
    ann_only: List[str] = field(default_factory=list)                # NAME: T  (no value)
    ann_order: List[Tuple[str, Optional[ast.expr]]] = field(default_factory=list)  # dataclass fields in order
    decorators: Tuple[str, ...] = ()

    def mro(self) -> List["ClassInfo"]:
        out: List[ClassInfo] = [self]
        for b in self.bases:
            for c in b.mro():
                if c not in out:
                    out.append(c)
        return out

    def is_subclass_of(self, name: str) -> bool:
        return any(c.name == name for c in self.mro()) or name in self.all_extern_bases()

    def all_extern_bases(self) -> List[str]:
        out: List[str] = []
        for c in self.mro():
            out.extend(c.extern_bases)
        return out

    @property
    def is_enum(self) -> bool:
        return "Enum" in self.all_extern_bases()

    @property
    def is_dataclass(self) -> bool:
        return any(d.split("(")[0] in ("dataclass", "dataclasses.dataclass") for d in self.decorators)

    def find_method(self, name: str, after: Optional["ClassInfo"] = None) -> Optional[FuncInfo]:
        mro = self.mro()
        if after is not None:
            if after in mro:
                mro = mro[mro.index(after) + 1:]
            else:
                mro = mro[1:]
        for c in mro:
            if name in c.methods:
                return c.methods[name]
            if name in c.attrs:
                return None         # a class-level assignment nearer in the MRO shadows inherited methods of that name
        return None

    def find_setter(self, name: str) -> Optional[FuncInfo]:
        for c in self.mro():
            if name in c.setters:
                return c.setters[name]
        return None

    def find_attr(self, name: str) -> Optional[Tuple["ClassInfo", ast.expr]]:
        for c in self.mro():
            if name in c.attrs:
                return c, c.attrs[name]
        return None

    def where(self) -> str:
        return f"{self.module.replace('.', '/')}.py:{self.node.lineno} class {self.name}"

    def __hash__(self) -> int:
        return id(self)

    def __eq__(self, other: object) -> bool:
        return self is other


@dataclass
class ModuleInfo:
    name: str
    path: pathlib.Path
    tree: ast.Module
    source: str
    imports: Dict[str, Tuple[str, Optional[str]]] = field(default_factory=dict)  # local -> (module, name|None)
    classes: Dict[str, ClassInfo] = field(default_factory=dict)
    funcs: Dict[str, FuncInfo] = field(default_factory=dict)
    consts: Dict[str, ast.expr] = field(default_factory=dict)
    const_nodes: Dict[str, ast.stmt] = field(default_factory=dict)

    def rel(self) -> str:
        return "src/" + self.name.replace(".", "/") + ".py"


def _dotted(e: ast.expr) -> str:
    if isinstance(e, ast.Name):
        return e.id
    if isinstance(e, ast.Attribute):
        return _dotted(e.value) + "." + e.attr
    if isinstance(e, ast.Call):
        return _dotted(e.func) + "(...)"
    if isinstance(e, ast.Subscript):
        return _dotted(e.value)
    return "?"


def decorator_names(node) -> Tuple[str, ...]:
    return tuple(_dotted(d) for d in node.decorator_list)


class Program:
    """All modules of src/jasm of one tree."""

    def __init__(self, root: Optional[pathlib.Path] = None, package: str = "jasm") -> None:
        self.root = pathlib.Path(root) if root else repo_root()
        self.src = self.root / "src"
        self.package = package
        self.modules: Dict[str, ModuleInfo] = {}
        pkg_dir = self.src / package
        if not pkg_dir.is_dir():
            raise AnalysisError(f"package directory {pkg_dir} not found")
        for p in sorted(pkg_dir.rglob("*.py")):
            name = ".".join(p.relative_to(self.src).with_suffix("").parts)
            if name.endswith(".__init__"):
                name = name[: -len(".__init__")]
            try:
                source = p.read_text(encoding="utf-8")
                tree = ast.parse(source, filename=str(p))
            except SyntaxError as exc:
                raise AnalysisError(f"cannot parse {p}: {exc}") from exc
            self.modules[name] = ModuleInfo(name=name, path=p, tree=tree, source=source)
        for m in self.modules.values():
            self._index_module(m)
        for m in self.modules.values():
            for c in m.classes.values():
                self._resolve_bases(m, c)

    # ------------------------------------------------------------------ indexing
    def _index_module(self, m: ModuleInfo) -> None:
        for st in m.tree.body:
            self._index_stmt(m, st)

    def _index_stmt(self, m: ModuleInfo, st: ast.stmt) -> None:
        if isinstance(st, ast.ImportFrom):
            mod = st.module or ""
            if st.level:
                base = m.name.split(".")
                base = base[: len(base) - st.level + (1 if m.path.name == "__init__.py" else 0)]
                mod = ".".join(base + ([mod] if mod else []))
            for a in st.names:
                m.imports[a.asname or a.name] = (mod, a.name)
        elif isinstance(st, ast.Import):
            for a in st.names:
                m.imports[a.asname or a.name.split(".")[0]] = (a.name if a.asname else a.name.split(".")[0], None)
        elif isinstance(st, ast.ClassDef):
            m.classes[st.name] = self._index_class(m, st)
        elif isinstance(st, (ast.FunctionDef, ast.AsyncFunctionDef)):
            m.funcs[st.name] = FuncInfo(st.name, m.name, st, None, decorator_names(st))
        elif isinstance(st, ast.Assign):
            for t in st.targets:
                if isinstance(t, ast.Name):
                    m.consts[t.id] = st.value
                    m.const_nodes[t.id] = st
        elif isinstance(st, ast.AnnAssign) and isinstance(st.target, ast.Name) and st.value is not None:
            m.consts[st.target.id] = st.value
            m.const_nodes[st.target.id] = st
        elif isinstance(st, (ast.If, ast.Try)):
            # module-level conditional definitions (e.g. `if __name__ == ...`) : index bodies too
            for sub in getattr(st, "body", []):
                if not (isinstance(st, ast.If) and _dotted(getattr(st.test, "left", ast.Name(id="?"))) == "__name__"):
                    self._index_stmt(m, sub)

    def _index_class(self, m: ModuleInfo, node: ast.ClassDef) -> ClassInfo:
        c = ClassInfo(node.name, m.name, node, [_dotted(b) for b in node.bases], decorators=decorator_names(node))
        for st in node.body:
            if isinstance(st, (ast.FunctionDef, ast.AsyncFunctionDef)):
                fi = FuncInfo(st.name, m.name, st, c, decorator_names(st))
                if fi.is_setter:
                    c.setters[st.name] = fi
                else:
                    c.methods[st.name] = fi
            elif isinstance(st, ast.Assign):
                for t in st.targets:
                    if isinstance(t, ast.Name):
                        c.attrs[t.id] = st.value
            elif isinstance(st, ast.AnnAssign) and isinstance(st.target, ast.Name):
                c.ann_order.append((st.target.id, st.value))
                if st.value is not None:
                    c.attrs[st.target.id] = st.value
                else:
                    c.ann_only.append(st.target.id)
        return c

    def _resolve_bases(self, m: ModuleInfo, c: ClassInfo) -> None:
        for bn in c.base_names:
            r = self.resolve(m.name, bn.split(".")[0]) if "." not in bn else None
            if r and r[0] == "class":
                c.bases.append(r[1])
            else:
                c.extern_bases.append(bn.split(".")[-1])

    # ------------------------------------------------------------------ lookup
    def module(self, name: str) -> ModuleInfo:
        if name not in self.modules:
            raise AnalysisError(f"module {name} not found in {self.src}")
        return self.modules[name]

    def resolve(self, module: str, name: str, _seen=None):
        """Resolve a bare name used in `module` -> ('class', ClassInfo) | ('func', FuncInfo) |
        ('const', module, expr) | ('module', modname) | ('extern', dotted) | None"""
        _seen = _seen or set()
        if (module, name) in _seen:
            return None
        _seen.add((module, name))
        m = self.modules.get(module)
        if m is None:
            return ("extern", f"{module}.{name}")
        if name in m.classes:
            return ("class", m.classes[name])
        if name in m.funcs:
            return ("func", m.funcs[name])
        if name in m.consts:
            return ("const", module, m.consts[name])
        if name in m.imports:
            mod, n = m.imports[name]
            if n is None:
                return ("module", mod) if mod in self.modules else ("extern", mod)
            if mod in self.modules:
                r = self.resolve(mod, n, _seen)
                if r:
                    return r
                if f"{mod}.{n}" in self.modules:
                    return ("module", f"{mod}.{n}")
                return None
            return ("extern", f"{mod}.{n}")
        return None

    def find_class(self, name: str) -> ClassInfo:
        hits = [c for m in self.modules.values() for c in m.classes.values() if c.name == name]
        if len(hits) != 1:
            raise AnalysisError(f"anchor class {name}: expected exactly one definition, found {len(hits)}")
        return hits[0]

    def try_class(self, name: str) -> Optional[ClassInfo]:
        hits = [c for m in self.modules.values() for c in m.classes.values() if c.name == name]
        return hits[0] if len(hits) == 1 else None

    def find_func(self, qual: str) -> FuncInfo:
        """'Class.method' or 'function' (unique over the program)."""
        if "." in qual:
            cn, fn = qual.split(".", 1)
            c = self.find_class(cn)
            f = c.find_method(fn)
            if f is None:
                raise AnalysisError(f"anchor method {qual} not found")
            return f
        hits = [m.funcs[qual] for m in self.modules.values() if qual in m.funcs]
        if len(hits) != 1:
            raise AnalysisError(f"anchor function {qual}: expected one definition, found {len(hits)}")
        return hits[0]

    def all_classes(self) -> List[ClassInfo]:
        return [c for m in self.modules.values() for c in m.classes.values()]

    def all_funcs(self) -> List[FuncInfo]:
        out: List[FuncInfo] = []
        for m in self.modules.values():
            out.extend(m.funcs.values())
            for c in m.classes.values():
                out.extend(c.methods.values())
                out.extend(c.setters.values())
        return out

    def subclasses_of(self, name: str) -> List[ClassInfo]:
        return [c for c in self.all_classes() if c.name != name and any(b.name == name for b in c.mro()[1:])]

    def rel(self, module: str) -> str:
        return self.module(module).rel()

    def loc(self, module: str, node: ast.AST) -> str:
        return f"{self.rel(module)}:{getattr(node, 'lineno', 0)}"
