"""cfgflow -- interpret the config loader on concrete / abstract config documents."""
from __future__ import annotations

from typing import Any, Dict, List, Optional, Tuple

from .absint import Interp, Path
from .facts import AnalysisError
from .models import lift_skeleton
from .values import NONE, Obj, Unknown, Value


def load_config_paths(I: Interp, config: Any) -> List[Path]:
    cfg_cls = I.p.find_class("JASMConfig")
    m = cfg_cls.find_method("load_config")
    if m is None:
        raise AnalysisError("anchor JASMConfig.load_config not found")

    def thunk(I: Interp) -> Value:
        cfg = config if isinstance(config, Value) else lift_skeleton(I, config)
        return I.call_func(m, [cfg], {}, I.construct(cfg_cls, [], {}, None, None), None, None)
    return I.explore(thunk)


def sets_of(path: Path) -> Dict[str, List[Value]]:
    out: Dict[str, List[Value]] = {}
    for ev in path.events:
        if ev.kind == "cfg_set":
            out.setdefault(ev.key, []).append(ev.value)
    return out
