"""obligations -- the hypotheses of the composition lemma (DESIGN §3), judged on every node of every
analysed skeleton.  Each judgement is a Result(rule, ok, construct, atom, message)."""
from __future__ import annotations

import itertools
import re as _re
from typing import Any, Callable, Dict, List, Optional, Tuple

from . import rx
from .compose import Analysed, NodeInfo, flatten, role_kind, substitute_children
from .facts import AnalysisError
from .skeletons import E, Skeleton
from .values import Hole, IntV, Lit, Str

WILD_MIN_BOUND = 200


class Result:
    def __init__(self, rule: str, ok: bool, construct: str, atom: str, message: str, detail: str = "",
                 cat: str = "", role: str = "", tags: Tuple[str, ...] = ()) -> None:
        self.rule, self.ok, self.construct, self.atom, self.message, self.detail = (
            rule, ok, construct, atom, message, detail)
        self.cat, self.role, self.tags = cat, role, tags

    def __repr__(self) -> str:
        return f"{'ok ' if self.ok else 'FAIL'} {self.rule} {self.construct} [{self.atom}] {self.message}"


class Judge:
    def __init__(self) -> None:
        self.results: List[Result] = []

    def put(self, rule: str, ok: bool, node: NodeInfo, atom: str, message: str) -> bool:
        construct = f"{node.cls}.get_regex"
        self.results.append(Result(rule, ok, construct, atom if not ok else "", message,
                                   f"{node.where()} T={node.tmpl.render() if node.tmpl else None}",
                                   node.category, node.role))
        self.results[-1].timed = tuple(node.times) != (1, 1)  # type: ignore[attr-defined]
        return ok


# ------------------------------------------------------------------ small regex predicates
def is_wild(n: rx.Node, excl: str, must_allow: str = "") -> bool:
    """a bounded-or-unbounded `class*` whose class excludes `excl` (and admits `must_allow`)"""
    if not isinstance(n, rx.Rep) or n.whole is not None:
        return False
    if n.lo != 0:
        return False
    if n.hi is not None and (isinstance(n.hi, Hole) or n.hi < WILD_MIN_BOUND):
        return False
    b = rx.unwrap(n.body)
    if not isinstance(b, (rx.Cls, rx.AnyChar)):
        return False
    if not rx.excludes(b, excl):
        return False
    return all(rx.can_match_char(b, c) for c in must_allow)


def is_addr(n: rx.Node) -> bool:
    if not isinstance(n, rx.Rep) or n.whole is not None or isinstance(n.lo, Hole) or n.lo < 1:
        return False
    if n.hi is not None and (isinstance(n.hi, Hole) or n.hi < 16):
        return False
    b = rx.unwrap(n.body)
    return rx.is_hex_class_superset(b) and rx.excludes(b, ":,|")


def is_char(n: rx.Node, c: str) -> bool:
    return isinstance(n, rx.Char) and n.c == c


def is_hole(n: rx.Node, tag: str, node: Optional[NodeInfo] = None) -> bool:
    """child hole `tag`; children with identical regex text are interchangeable"""
    if not isinstance(n, rx.HoleN):
        return False
    if n.hole.tag == tag:
        return True
    if node is not None:
        eq = getattr(node, "equiv", {})
        return n.hole.tag in eq.get(tag, ())
    return False


def flat_items(ast: rx.Node) -> List[rx.Node]:
    return rx.seq_items(rx.strip_groups(ast))


def lit_items(text: str) -> List[rx.Node]:
    return [rx.Char(c) for c in text]


def items_repr(items: List[rx.Node]) -> str:
    return "".join(map(repr, items))


class Cursor:
    def __init__(self, items: List[rx.Node]) -> None:
        self.items, self.i = items, 0

    def peek(self) -> Optional[rx.Node]:
        return self.items[self.i] if self.i < len(self.items) else None

    def take(self, pred: Callable[[rx.Node], bool]) -> bool:
        p = self.peek()
        if p is not None and pred(p):
            self.i += 1
            return True
        return False

    def take_lit(self, text: str) -> bool:
        j = self.i
        for c in text:
            if not self.take(lambda n, c=c: is_char(n, c)):
                self.i = j
                return False
        return True

    def rest(self) -> str:
        return items_repr(self.items[self.i:])

    def done(self) -> bool:
        return self.i >= len(self.items)


# ------------------------------------------------------------------ times wrapper (C02)
def peel_times(node: NodeInfo, ast: rx.Node, J: Judge) -> Optional[rx.Node]:
    """T = (?:body){lo,hi} with the node's own times (or body alone for (1,1)).  Returns body."""
    top = rx.unwrap(ast)
    lo, hi = node.times
    if (lo, hi) == (1, 1):
        if isinstance(top, rx.Rep) and top.whole is None and (top.lo, top.hi) == (1, 1):
            top = rx.unwrap(top.body)
        J.put("T.none", True, node, "", "no quantifier for times (1,1)")
        return ast if not isinstance(rx.unwrap(ast), rx.Rep) or True else top
    if not (isinstance(top, rx.Rep) and top.whole is None):
        J.put("T.wrap", False, node, f"times={lo},{hi}:no-quantifier",
              f"times ({lo},{hi}) but the regex is not one quantified group: {top!r}")
        return None
    ok = (top.lo, top.hi) == (lo, hi)
    J.put("T.bounds", ok, node, f"{{{top.lo},{top.hi}}}!=({lo},{hi})",
          f"quantifier {{{top.lo},{top.hi}}} for times ({lo},{hi})")
    grouped = isinstance(top.body, rx.Group) and top.body.kind in ("nc", "atomic")
    J.put("T.group", grouped, node, "quantifier-binds-to-last-atom",
          "the quantifier applies to one non-capturing group holding the whole occurrence")
    if not grouped and not isinstance(top.body, (rx.HoleN,)):
        return None
    return top.body


# ------------------------------------------------------------------ leaves
def own_name_hole(node: NodeInfo) -> Optional[Hole]:
    if isinstance(node.name, Str):
        return node.name.single_hole()
    return None


def take_name(cur: Cursor, node: NodeInfo) -> Tuple[bool, str]:
    """consume the node's own name, verbatim: its hole, or its literal text"""
    h = own_name_hole(node)
    if h is not None:
        p = cur.peek()
        if isinstance(p, rx.HoleN) and p.hole.tag == h.tag:
            cur.i += 1
            return True, ""
        if isinstance(p, rx.HoleN) and p.hole.root().tag == h.tag:
            return False, f"name rewritten: {p.hole.tag}"
        return False, f"expected the name, found {p!r}"
    text = node.name_text
    if cur.take_lit(text):
        return True, ""
    if _re.fullmatch(r"[0-9a-fA-F]+h", text) and cur.take_lit("0x" + text[:-1]):
        if text.lower() not in ("ah", "bh", "ch", "dh"):
            # a literal in assembler notation (10h, A3h): the recorded finding
            return False, "name rewritten: h-suffixed hex literal NNh -> 0xNN"
        # an x86 register name that merely looks like one (ah bh ch dh): its own, distinct, violation
        return False, f"register name {text!r} rewritten to 0x{text[:-1]}"
    return False, f"name {text!r} rewritten to {cur.rest()[:len(text) + 6]!r}"


def check_name_piece(cur: Cursor, node: NodeInfo, full: Optional[bool]) -> Tuple[bool, str]:
    """full: `name ,`  substring: `W* name W* ,` with W excluding , and |"""
    if full is None:
        return False, "the full-match flag was never consulted"
    if full:
        ok, why = take_name(cur, node)
        if not ok:
            return False, why
        if not cur.take_lit(","):
            return False, f"name not terminated by ',': {cur.rest()[:12]}"
        return True, ""
    if not cur.take(lambda n: is_wild(n, ",|")):
        return False, f"substring mode: no separator-free wildcard before the name: {cur.rest()[:16]}"
    ok, why = take_name(cur, node)
    if not ok:
        return False, why
    if not cur.take(lambda n: is_wild(n, ",|")):
        return False, f"substring mode: no separator-free wildcard after the name: {cur.rest()[:16]}"
    if not cur.take_lit(","):
        return False, f"name piece not terminated by ',': {cur.rest()[:12]}"
    return True, ""


def check_mnemonic(node: NodeInfo, a: Analysed, J: Judge) -> None:
    ast = rx.parse(node.tmpl)
    body = peel_times(node, ast, J)
    if body is None:
        return
    cur = Cursor(flat_items(body))
    ok = cur.take(is_addr) and cur.take_lit("::")
    J.put("R1.frame-start", ok, node, items_repr(cur.items[:3]),
          "instruction regex starts with ADDR+ '::' (ADDR a class of lower-case hex digits excluding ':' ',' '|')")
    if not ok:
        return
    okn, why = check_name_piece(cur, node, a.flags["mn_full"])
    J.put("R2.mnemonic-name", okn, node, why, f"mnemonic name piece ({'full' if a.flags['mn_full'] else 'substring'} mode)")
    if not okn:
        return
    kids = [c for c in node.children if c.category != "times" and c.regex is not None and flatten(c.regex)]
    order_ok = True
    for i, c in enumerate(node.children):
        if c.category == "times" or c.regex is None or not flatten(c.regex):
            continue
        if not cur.take(lambda n, i=i: is_hole(n, f"c{i}", node)):
            order_ok = False
            break
    J.put("R3.operands-in-order", order_ok, node, cur.rest()[:40],
          "operand regexes follow the mnemonic name in list order, nothing in between")
    if not order_ok:
        return
    tail = cur.take(lambda n: is_wild(n, "|", must_allow=",")) and cur.take_lit("|") and cur.done()
    J.put("R1.frame-end", tail, node, cur.rest()[:40] or "tail",
          "instruction regex ends with a wildcard excluding '|' (admitting ',') and the literal '|'")


def check_operand_plain(node: NodeInfo, a: Analysed, J: Judge) -> None:
    ast = rx.parse(node.tmpl)
    cur = Cursor(flat_items(ast))
    ok, why = check_name_piece(cur, node, a.flags["op_full"])
    if ok and not cur.done():
        ok, why = False, f"extra atoms after the operand's comma: {cur.rest()[:20]}"
    if not ok and "rewritten" in why:
        J.put("R2.operand-name-verbatim", False, node, why, "operand name is matched verbatim")
        return
    J.put("R3.operand-unit", ok, node, why,
          f"operand regex is one comma-terminated field ({'full' if a.flags['op_full'] else 'substring'} mode)")


def check_field_plain(node: NodeInfo, a: Analysed, J: Judge) -> None:
    cur = Cursor(flat_items(rx.parse(node.tmpl)))
    ok, why = take_name(cur, node)
    J.put("D.field-verbatim", ok and cur.done(), node, why or cur.rest()[:20],
          "a deref field contributes its text verbatim")


def check_times_marker(node: NodeInfo, a: Analysed, J: Judge) -> None:
    J.put("T.marker-empty", node.regex is not None and not flatten(node.regex), node, "non-empty",
          "the `times` pseudo-child contributes no regex text")


# ------------------------------------------------------------------ operators (C03 / C04)
def child_tags(node: NodeInfo) -> List[str]:
    return [f"c{i}" for i, c in enumerate(node.children) if c.regex is not None and flatten(c.regex)]


def find_alt_sealed(raw: rx.Node) -> bool:
    """every Alt in the template is the sole content of a group"""
    def rec(n: rx.Node, parent: Optional[rx.Node]) -> bool:
        if isinstance(n, rx.Alt):
            if not (isinstance(parent, rx.Group) and parent.body is n):
                return False
        return all(rec(c, n) for c in n.children())
    return rec(raw, None)


def check_and(node: NodeInfo, a: Analysed, J: Judge) -> None:
    ast = rx.parse(node.tmpl)
    body = peel_times(node, ast, J)
    if body is None:
        return
    items = flat_items(body)
    want = child_tags(node)
    got = [n.hole.tag if isinstance(n, rx.HoleN) else repr(n) for n in items]
    eq = getattr(node, "equiv", {})
    canon = lambda t: min(eq.get(t, {t}) | {t})
    got, want = [canon(t) for t in got], [canon(t) for t in want]
    J.put("A2.sequence", got == want, node, "".join(got) + "!=" + "".join(want),
          "$and is exactly the children's regexes in list order")


def check_or(node: NodeInfo, a: Analysed, J: Judge) -> None:
    ast = rx.parse(node.tmpl)
    J.put("A1.sealed", find_alt_sealed(ast), node, "unsealed-alternation",
          "the alternation is the sole content of a group (cannot merge with neighbours)")
    body = peel_times(node, ast, J)
    if body is None:
        return
    s = rx.strip_groups(body)
    branches = s.branches if isinstance(s, rx.Alt) else [s]
    eq = getattr(node, "equiv", {})
    canon = lambda t: min(eq.get(t, {t}) | {t})
    got = sorted(canon(b.hole.tag) if isinstance(b, rx.HoleN) else repr(b) for b in branches)
    want = sorted(canon(t) for t in child_tags(node))
    J.put("A1.alternation", got == want, node, "|".join(got) + "!=" + "|".join(want),
          "$or is the alternation of exactly its children, each alternative one child")


def check_any_order(node: NodeInfo, a: Analysed, J: Judge) -> None:
    ast = rx.parse(node.tmpl)
    J.put("A1.sealed", find_alt_sealed(ast), node, "unsealed-alternation",
          "the alternation of orderings is the sole content of a group")
    body = peel_times(node, ast, J)
    if body is None:
        return
    s = rx.strip_groups(body)
    branches = s.branches if isinstance(s, rx.Alt) else [s]
    got = []
    for b in branches:
        its = rx.seq_items(b)
        got.append(tuple(n.hole.tag if isinstance(n, rx.HoleN) else repr(n) for n in its))
    eq = getattr(node, "equiv", {})
    canon = lambda t: min(eq.get(t, {t}) | {t})
    tags = [canon(t) for t in child_tags(node)]
    got = [tuple(canon(t) for t in g) for g in got]
    want = sorted(itertools.permutations(tags))
    J.put("A3.permutations", sorted(got) == want, node, f"{sorted(got)[:3]}...!={len(want)} permutations",
          "$and_any_order is the alternation of all orderings of its children, each child exactly once")


def check_not(node: NodeInfo, a: Analysed, J: Judge) -> None:
    ast = rx.parse(node.tmpl)
    body = peel_times(node, ast, J)
    if body is None:
        return
    items = flat_items(body)
    tags = child_tags(node)
    ok_shape = (len(tags) == 1 and len(items) >= 2 and isinstance(items[0], rx.Group) and items[0].kind == "nla"
                and is_hole(rx.unwrap(rx.strip_groups(items[0].body)), tags[0]))
    J.put("N1.lookahead", ok_shape, node, items_repr(items[:1])[:40],
          "$not is a negative look-ahead on exactly its argument, followed by the consumed unit")
    if not ok_shape:
        return
    cur = Cursor(items[1:])
    if node.role == "instr":
        ok = (cur.take(is_addr) and cur.take_lit("::") and cur.take(lambda n: is_wild(n, "|", must_allow=","))
              and cur.take_lit("|") and cur.done())
        J.put("N2.unit-instruction", ok, node, items_repr(items[1:])[:40],
              "instruction-level $not consumes exactly one record: ADDR+ '::' [^|]* '|'")
    elif node.role == "operand":
        ok = cur.take(lambda n: is_wild(n, ",|")) and cur.take_lit(",") and cur.done()
        J.put("N2.unit-operand", ok, node, items_repr(items[1:])[:40],
              "operand-level $not consumes exactly one field: [^,|]* ','")


# ------------------------------------------------------------------ deref (C06)
FIELD_PREFIX = {"main_reg": "%", "register_multiplier": "%", "constant_multiplier": "0x", "constant_offset": "0x"}


def _opt_prefix(cur: Cursor, prefix: str) -> bool:
    """`%?` or `(?:0x)?` : an optional literal prefix"""
    p = cur.peek()
    if not (isinstance(p, rx.Rep) and (p.lo, p.hi) == (0, 1)):
        return False
    inner = rx.seq_items(rx.strip_groups(p.body))
    if len(inner) == 1 and isinstance(inner[0], rx.Group):
        inner = rx.seq_items(inner[0].body)
    if items_repr(inner) != items_repr(lit_items(prefix)):
        return False
    cur.i += 1
    return True


def check_deref(node: NodeInfo, a: Analysed, J: Judge) -> None:
    ast = rx.parse(node.tmpl)
    body = peel_times(node, ast, J)
    if body is None:
        return
    props = {c.name_text: f"c{i}" for i, c in enumerate(node.children) if c.category == "prop"}
    cur = Cursor(flat_items(body))

    def field(name: str) -> bool:
        if FIELD_PREFIX[name] == "0x":
            # a constant that starts with '-' keeps its sign in front of the optional 0x: '-' (0x)? <rest of the value>
            # (objdump prints -0x8); this spelling exists only on the path where the value was tested to start with '-'
            save = cur.i
            if cur.take_lit("-") and _opt_prefix(cur, "0x") and cur.take(
                    lambda n: isinstance(n, rx.HoleN) and n.hole.tag in (props[name] + ".[1:]",) and n.hole.base is not None):
                return True
            cur.i = save
        return _opt_prefix(cur, FIELD_PREFIX[name]) and cur.take(lambda n: is_hole(n, props[name], node))

    ok = cur.take_lit("[") and "main_reg" in props and field("main_reg")
    b, c, k = ("register_multiplier" in props, "constant_multiplier" in props, "constant_offset" in props)
    if ok and b and c:
        ok = cur.take_lit("+") and field("register_multiplier") and cur.take_lit("*") and field("constant_multiplier")
    elif ok and b:
        ok = cur.take_lit("+") and field("register_multiplier")
    elif ok and c:
        ok = cur.take_lit("+") and field("constant_multiplier")
    if ok and k:
        ok = cur.take_lit("+") and field("constant_offset")
    ok = bool(ok) and cur.take_lit("]") and cur.take_lit(",") and cur.done()
    J.put("D1.deref-shape", ok, node, f"b={b},c={c},k={k}:{cur.rest()[:30]}",
          "deref regex is '[' %?a ('+' %?b '*' (0x)?c)? ('+' (0x)?k)? ']' ',' for the present fields (a leading '-' of a constant before its (0x)?), nothing else")


def check_prop(node: NodeInfo, a: Analysed, J: Judge) -> None:
    tags = child_tags(node)
    items = flat_items(rx.parse(node.tmpl))
    ok = len(tags) == 1 and len(items) == 1 and is_hole(items[0], tags[0])
    J.put("D.prop-passthrough", ok, node, items_repr(items)[:30], "a deref property passes its single value through")


# ------------------------------------------------------------------ captures (C05)
def spec_strip_suffix(name: str) -> str:
    parts = name.split(".")
    if len(parts) > 1 and parts[-1].lower() in ("64", "32", "16", "8h", "8l"):
        return ".".join(parts[:-1])
    return name


def is_cap_group(n: rx.Node, excl: str) -> bool:
    if not (isinstance(n, rx.Group) and n.kind == "cap"):
        return False
    b = n.body
    if not (isinstance(b, rx.Rep) and b.whole is None and b.lo == 1 and b.hi is None):
        return False
    c = rx.unwrap(b.body)
    return isinstance(c, rx.Cls) and rx.excludes(c, excl)


def check_capture(node: NodeInfo, a: Analysed, J: Judge, first: bool) -> None:
    raw = rx.parse(node.tmpl)
    items = rx.seq_items(_strip_nc_keep_cap(raw))
    cur = Cursor(items)
    if node.role == "instr":
        if first:
            ok = (cur.take(is_addr) and cur.take_lit("::") and cur.take(lambda n: is_cap_group(n, "|"))
                  and cur.take_lit(",|") and cur.done())
            J.put("G4.instr-reference", ok, node, items_repr(items)[:50],
                  "first occurrence captures the whole instruction (not the address): ADDR+ '::' ([^|]+) ',|'")
        else:
            ok = (cur.take(is_addr) and cur.take_lit("::") and cur.take(lambda n: isinstance(n, rx.BackRef))
                  and cur.take_lit(",|") and cur.done())
            J.put("G4.instr-call", ok, node, items_repr(items)[:50],
                  "later occurrence is ADDR+ '::' back-reference ',|' (equality with the whole instruction)")
    elif node.role == "operand":
        if first:
            ok = cur.take(lambda n: is_cap_group(n, ",|")) and cur.take_lit(",") and cur.done()
            J.put("G4.operand-reference", ok, node, items_repr(items)[:50],
                  "first occurrence captures one whole operand: ([^,|]+) ','")
        else:
            ok = cur.take(lambda n: isinstance(n, rx.BackRef)) and cur.take_lit(",") and cur.done()
            J.put("G4.operand-call", ok, node, items_repr(items)[:50],
                  "later occurrence is the back-reference followed by a mandatory ','")
    elif node.role == "deref-field":
        if first:
            ok = cur.take(lambda n: is_cap_group(n, ",|")) and cur.done()
            J.put("G4.field-reference", ok, node, items_repr(items)[:50], "deref field capture is ([^,|]+)")
        else:
            ok = cur.take(lambda n: isinstance(n, rx.BackRef))
            rest_ok = all(isinstance(x, rx.Rep) and x.lo == 0 and is_char(rx.unwrap(x.body), ",")
                          for x in cur.items[cur.i:])
            J.put("G4.field-call", ok and rest_ok, node, items_repr(items)[:50],
                  "deref field back-reference, followed at most by optional commas (glue follows in the parent)")


def _strip_nc_keep_cap(n: rx.Node) -> rx.Node:
    return rx.strip_groups(n)


# x86 register table of the README: family -> letters -> width -> name
REG_TABLE: Dict[str, Dict[str, Dict[str, str]]] = {
    "&genreg": {l: {"64": f"r{l}x", "32": f"e{l}x", "16": f"{l}x", "8h": f"{l}h", "8l": f"{l}l"} for l in "abcd"},
    "&indreg": {l: {"64": f"r{l}i", "32": f"e{l}i", "16": f"{l}i", "8l": f"{l}il"} for l in "sd"},
    "&stackreg": {"sp": {"64": "rsp", "32": "esp", "16": "sp", "8l": "spl"}},
    "&basereg": {"bp": {"64": "rbp", "32": "ebp", "16": "bp", "8l": "bpl"}},
}
ALL_REG_NAMES = sorted({n for fam in REG_TABLE.values() for d in fam.values() for n in d.values()} | {
    "r8", "r8d", "r8w", "r8b", "r10", "r15d", "rip", "eip", "si", "sil", "di", "dil", "ss", "cs"})
# operand texts that are not register names of any family but can sit in a listing
NEAR_MISSES = ["e,x", "", "0xa", "401ab0", "a", "0x10", "10", "*%rax"]


def regcap_family(name: str) -> Optional[str]:
    for f in REG_TABLE:
        if name.startswith(f):
            return f
    return None


def regcap_width(name: str) -> Optional[str]:
    parts = name.split(".")
    if len(parts) > 1 and parts[-1].lower() in ("64", "32", "16", "8h", "8l"):
        return parts[-1].lower()
    return None


def check_regcap(node: NodeInfo, a: Analysed, J: Judge, first: bool, bound_letters: Optional[str] = None) -> None:
    """G5/G8: evaluate the node's (concrete) regex constant against the x86 register table."""
    if node.regex is None or not (node.regex.is_concrete() or True):
        return
    name = node.name_text
    fam = regcap_family(name)
    width = regcap_width(name)
    assert fam is not None
    text = node.regex.render() if not node.regex.is_concrete() else node.regex.text()
    term_ctxs = [","] if node.role == "operand" else ["+0x8]", "]", "*4]", "+%rbx*2]"]
    table = REG_TABLE[fam]
    if width is not None and not any(width in d for d in table.values()):
        return  # an undocumented family/width pair (e.g. &indreg.8H): outside the property
    if first:
        try:
            cre = _re.compile(text)
        except _re.error as exc:
            J.put("G5.reference-table", False, node, text, f"reference regex does not compile: {exc}")
            return
        if cre.groups != 1:
            J.put("G1.one-group", False, node, f"groups={cre.groups}", "a first occurrence emits exactly one capturing group")
            return
        J.put("G1.one-group", True, node, "", "a first occurrence emits exactly one capturing group")
        bad: List[str] = []
        for cand in ALL_REG_NAMES + NEAR_MISSES:
            for pre in ("%", ""):
                for ctx in term_ctxs:
                    s = pre + cand + ctx
                    m = cre.match(s)
                    consumed_ok = m is not None and m.end() == len(pre + cand) + (1 if node.role == "operand" else 0)
                    expect_letters = None
                    for letters, d in table.items():
                        for w, regname in d.items():
                            if regname == cand and (width is None or w == width):
                                expect_letters = letters
                    if expect_letters is not None:
                        if not (consumed_ok and m.group(1) == expect_letters):
                            bad.append(f"rejects/mis-captures {s!r}")
                    elif consumed_ok:
                        bad.append(f"accepts {s!r}")
        J.put("G5.reference-table", not bad, node, (bad[0] if bad else ""),
              f"first occurrence of {name} accepts exactly the registers of its family"
              f"{' at width ' + width if width else ''} and captures the family letters")
        # separator discipline of the reference (C07.P2)
    else:
        if width is None:
            return
        bad = []
        for letters, d in table.items():
            if width not in d:
                continue
            # instantiate the back-reference with the bound letters
            inst = _re.sub(r"\\\d+", lambda m: _re.escape(letters), text)
            try:
                cre = _re.compile(inst)
            except _re.error as exc:
                bad.append(f"does not compile: {exc}")
                break
            for cand in ALL_REG_NAMES + NEAR_MISSES:
                for pre in ("%", ""):
                    for ctx in term_ctxs:
                        s = pre + cand + ctx
                        m = cre.match(s)
                        consumed_ok = m is not None and m.end() == len(pre + cand) + (1 if node.role == "operand" else 0)
                        if cand == d[width]:
                            if not consumed_ok:
                                bad.append(f"{letters}: rejects {s!r}")
                        elif consumed_ok:
                            bad.append(f"{letters}: accepts {s!r}")
        J.put("G5.call-table", not bad, node, (bad[0] if bad else ""),
              f"later occurrence {name} matches exactly the bound register's name at width {width}")


# ------------------------------------------------------------------ separator discipline (C07.P2)
def check_discipline(node: NodeInfo, a: Analysed, J: Judge) -> None:
    if node.tmpl is None:
        return
    ast = rx.parse(node.tmpl)
    excl = ",|" if node.role in ("operand", "deref-field", "deref-prop") else "|"
    bad = []
    for leaf in rx.consuming_leaves(ast, include_look=True):
        if isinstance(leaf, (rx.Cls, rx.AnyChar)) and not rx.excludes(leaf, excl):
            bad.append(repr(leaf))
    J.put("P2.separator-discipline", not bad, node, ",".join(sorted(set(bad))),
          f"every wildcard/class of a {node.role}-level regex excludes {' and '.join(repr(c) for c in excl)}")


def check_frame(node: NodeInfo, a: Analysed, J: Judge) -> None:
    """C07.P1: an instruction-level leaf starts with ADDR+'::' and ends by consuming '|'"""
    if node.regex is None:
        return
    ast = rx.parse(node.tmpl)
    firsts = rx.first_leaves(ast)
    lasts = rx.last_leaves(ast)
    items = flat_items(rx.unwrap(ast).body if isinstance(rx.unwrap(ast), rx.Rep) else ast)
    if items and isinstance(items[0], rx.Group) and items[0].kind in rx.LOOK:
        items = items[1:]
    start_ok = len(items) >= 3 and is_addr(items[0]) and is_char(items[1], ":") and is_char(items[2], ":")
    end_ok = bool(lasts) and all(is_char(l, "|") for l in lasts)
    J.put("P1.starts-at-address", start_ok, node, items_repr(items[:2])[:30],
          "an instruction-level element begins with the address skip ADDR+ '::'")
    J.put("P1.ends-at-bar", end_ok, node, ",".join(map(repr, lasts))[:30],
          "an instruction-level element ends by consuming the record terminator '|'")


# ------------------------------------------------------------------ driver over one analysed skeleton
def align(exp: E, node: NodeInfo, J: Judge) -> bool:
    """the typed tree mirrors the written pattern: same names, same child lists (times markers aside),
    and every node carries the times written for it (both spellings)."""
    ok = True
    want_name = exp.name.tag if hasattr(exp.name, "tag") else str(exp.name)
    got_name = node.name_text.strip("<>") if hasattr(exp.name, "tag") else node.name_text
    if want_name != got_name:
        J.put("T1.tree-mirrors-pattern", False, node, f"{got_name}!={want_name}", "typed node has the written name")
        return False
    et = exp.expected_times()
    J.put("T1.times-extraction", tuple(node.times) == et, node, f"{node.times}!={et}",
          f"`times` written as {exp.times!r} reaches the node as {et}")
    ech = exp.expected_children()
    nch = node.real_children()
    if len(ech) != len(nch):
        J.put("T1.tree-mirrors-pattern", False, node, f"children {len(nch)}!={len(ech)}",
              "typed node has the written children")
        return False
    if exp.fields is not None:  # the fields of a $deref are a mapping: order is immaterial
        by_name = {n.name_text: n for n in nch}
        pairs = [(e, by_name.get(str(e.name))) for e in ech]
        if any(n is None for _, n in pairs):
            J.put("T1.tree-mirrors-pattern", False, node, f"fields {sorted(by_name)}", "typed $deref has the written fields")
            return False
    else:
        pairs = list(zip(ech, nch))
    for e, n in pairs:
        ok = align(e, n, J) and ok
    return ok


def judge_node(node: NodeInfo, a: Analysed, J: Judge, seen_caps: List[str]) -> None:
    if node.regex is None or node.tmpl is None:
        return
    cat, role = node.category, node.role
    # every real child's regex is embedded verbatim
    if cat != "$and_any_order" and role != "times-arg":
        for i, c in enumerate(node.children):
            if c.regex is None or not flatten(c.regex):
                continue
            cnt = getattr(node, "embed_counts", {}).get(f"c{i}", 0)
            J.put("E.child-embedded-once", cnt == 1, node, f"c{i}x{cnt}",
                  "each child's regex appears exactly once, verbatim, in its parent's regex")
    if role in ("times-arg",):
        return
    if cat == "times":
        check_times_marker(node, a, J)
        return
    check_discipline(node, a, J)
    if cat == "$and":
        check_and(node, a, J)
    elif cat == "$or":
        check_or(node, a, J)
    elif cat == "$and_any_order":
        check_any_order(node, a, J)
    elif cat == "$not":
        check_not(node, a, J)
    elif cat == "$deref":
        check_deref(node, a, J)
    elif cat == "prop":
        check_prop(node, a, J)
    elif cat in ("cap", "regcap"):
        key = spec_strip_suffix(node.name_text) if cat == "regcap" else node.name_text
        first = key not in seen_caps
        if first:
            seen_caps.append(key)
        if cat == "cap":
            check_capture(node, a, J, first)
        else:
            check_regcap(node, a, J, first)
        node.first_occurrence = first  # type: ignore[attr-defined]
        if role == "instr":
            check_frame(node, a, J)
    elif cat == "plain":
        if role == "instr":
            check_mnemonic(node, a, J)
            check_frame(node, a, J)
        elif role == "operand":
            check_operand_plain(node, a, J)
        elif role == "deref-field":
            check_field_plain(node, a, J)
    if cat == "$not" and role == "instr":
        check_frame(node, a, J)


def document_order(node: NodeInfo) -> List[NodeInfo]:
    out = [node]
    for c in node.children:
        out.extend(document_order(c))
    return out


DEREF_EMISSION = ("main_reg", "register_multiplier", "constant_multiplier", "constant_offset")


def emission_order(node: NodeInfo) -> List[NodeInfo]:
    out = [node]
    kids = list(node.children)
    if node.category == "$deref":
        kids.sort(key=lambda c: DEREF_EMISSION.index(c.name_text) if c.name_text in DEREF_EMISSION else 99)
    for c in kids:
        out.extend(emission_order(c))
    return out


def check_numbering(a: Analysed, J: Judge) -> None:
    """C05.G1/G3: capturing groups only in first occurrences; group number == registration position;
    every back-reference points at the group of its own name."""
    root = a.root
    assert root is not None and a.regex is not None
    nodes = [n for n in root.walk() if n.category in ("cap", "regcap") and n.regex is not None]
    firsts = [n for n in nodes if getattr(n, "first_occurrence", False)]
    calls = [n for n in nodes if not getattr(n, "first_occurrence", False)]
    # capturing groups / back-references outside capture-group nodes?  (those nodes are holes in census_tmpl)
    ct = getattr(a, "census_tmpl", None)
    if ct is not None:
        ast = rx.parse(ct)
        stray = rx.groups(ast, "cap") + rx.backrefs(ast)
        J.put("G1.census", not stray, root, f"{len(stray)} stray capturing group(s)/back-reference(s)",
              "no capturing group or back-reference is emitted outside capture-group nodes")
    # emission order: children in list order (rules A2/R3), deref fields in the order of rule D1
    emitted = []
    for n in emission_order(root):
        if n in firsts:
            emitted.append(spec_strip_suffix(n.name_text) if n.category == "regcap" else n.name_text)
    ok = emitted == list(a.captures)
    J.put("G3.registration-order-is-group-order", ok, root, f"emitted={emitted} registered={a.captures}",
          "the k-th capturing group of the regex belongs to the k-th registered capture name")
    for n in calls:
        key = spec_strip_suffix(n.name_text) if n.category == "regcap" else n.name_text
        refs = rx.backrefs(rx.parse(n.regex))
        want = emitted.index(key) + 1 if key in emitted else None
        got = [r.ref for r in refs]
        J.put("G3.backref-number", bool(refs) and all(g == want for g in got), n, f"\\{got}!=\\{want}",
              f"a later occurrence of {key} refers to the group of its own first occurrence")


def judge_skeleton(sk: Skeleton, analysed: List[Analysed]) -> List[Result]:
    J = Judge()
    for a in analysed:
        if not a.ok:
            J.results.append(Result("X.compiles", False, "Yaml2Regex.produce_regex",
                                    f"{sk.label}: {a.path.exc!r}"[:160],
                                    f"a well-formed pattern ({sk.label}) failed to compile: {a.path.exc!r} "
                                    f"at {getattr(a.path.exc, 'where', '')}"))
            continue
        assert a.root is not None
        J.results.append(Result("X.compiles", True, "Yaml2Regex.produce_regex", "", sk.label))
        same_in = getattr(a, "input_before", None) == getattr(a, "input_after", None)
        J.results.append(Result("X.input-unmodified", same_in, "Yaml2Regex._generate_rule_tree",
                                "the loaded rule document is modified by compiling it" if not same_in else "",
                                "compiling a rule leaves the loaded document as it was (it may be compiled again, "
                                "and sub-trees may be shared by YAML aliases or macro bodies)", sk.label, "$and", "instr"))
        align(sk.root(), a.root, J)
        seen: List[str] = []
        for n in document_order(a.root):
            judge_node(n, a, J, seen)
        if any(n.category in ("cap", "regcap") for n in a.root.walk()):
            check_numbering(a, J)
    for r in J.results:
        r.detail = f"{sk.label} :: {r.detail}"
        r.tags = tuple(sk.tags)
    return J.results
