"""shapes -- objdump AT&T listing lines and operands as *token templates*, and what the parser must make of them.

A shape is a string whose variable parts are token holes (tokrx.tok): an address is a non-empty run of hex digits, a
register name a run of lower-case letters/digits, a constant a run of hex digits / 'x' / '-'.  The repository's own
parser code is interpreted on these templates (regex calls on them are matched exactly by tokrx, string operations
are exact because the structural characters '(', ')', ',', '$', '%', '<', '#', blank never occur inside a token), so
the resulting Instruction / normal form is computed for EVERY instantiation of the tokens at once.

The expected results are the rows of properties C09 (normal forms), C10 (record format), C08 (one instruction per
instruction line, nothing for the other line kinds) and C16 (presentation does not matter)."""
from __future__ import annotations

from typing import Any, Dict, List, Optional, Tuple

from .absint import Interp
from .facts import AnalysisError
from .tokrx import tok
from .values import ListV, Lit, Obj, Str, Value


def T(*parts: Any) -> Str:
    return Str(tuple(Lit(x) if isinstance(x, str) else x for x in parts))


def H(tag: str, alpha: str):
    return tok(tag, alpha)


# ------------------------------------------------------------------ operands (C09's list, plus the 16-bit forms)
def operand_shapes() -> List[Tuple[str, Str, Optional[str], bool]]:
    """(label, operand template, expected normal form (rendered) or None, listed-in-C09?)"""
    A, B, C, K, V, R, TG = H("A", "reg"), H("B", "reg"), H("C", "dec"), H("K", "num"), H("V", "num"), H("R", "reg"), H("TGT", "hex")
    return [
        ("immediate $v", T("$", V), "<V>", True),
        ("register %r", T("%", R), "%<R>", True),
        ("k(a,b,c)", T(K, "(%", A, ",%", B, ",", C, ")"), "[%<A>+%<B>*<C>+<K>]", True),
        ("(a,b,c)", T("(%", A, ",%", B, ",", C, ")"), "[%<A>+%<B>*<C>]", True),
        ("k(,b,c)", T(K, "(,%", B, ",", C, ")"), "[+%<B>*<C>+<K>]", True),
        ("k(a)", T(K, "(%", A, ")"), "[%<A>+<K>]", True),
        ("(a)", T("(%", A, ")"), "[%<A>]", True),
        ("bare branch target", T(TG), "<TGT>", True),
        ("(,b,c)", T("(,%", B, ",", C, ")"), "[+%<B>*<C>]", False),
        ("(a,b) (16-bit addressing)", T("(%", A, ",%", B, ")"), "[%<A>+%<B>]", False),
        ("k(a,b) (16-bit addressing)", T(K, "(%", A, ",%", B, ")"), "[%<A>+%<B>+<K>]", False),
    ]


def normalise(I: Interp, operand: Str) -> List[Tuple[str, str]]:
    """outcomes of the operand normaliser (OperandsParser.parse on a one-operand list) on the template: ('return', rendered) / ('raise', type)"""
    from .normflow import normalise_one

    def thunk(I: Interp) -> Value:
        return normalise_one(I, operand)
    out = set()
    try:
        paths = I.explore(thunk)
    except AnalysisError:
        # OperandsParser does not take a list of operand strings (any more): the operand is put on an instruction line and the
        # line parser, the one entry every listing goes through, is asked instead
        return _normalise_via_line(I, operand)
    for path in paths:
        if path.kind == "return":
            v = path.value
            out.add(("return", v.render() if isinstance(v, Str) else repr(v)))
        else:
            out.add(("raise", path.exc.type_name))
    return sorted(out)


def _normalise_via_line(I: Interp, operand: Str) -> List[Tuple[str, str]]:
    ad, mn = H("ADDR0", "hex"), H("MN0", "mn")
    line = Str((Lit("  "), ad, Lit(":\t48 89 e5             \t"), mn, Lit("    ")) + tuple(operand.atoms))
    prefix = "<ADDR0>::<MN0>,"
    out = set()
    for kind, val in parse_line(I, line):
        if kind == "instruction" and val.startswith(prefix):
            out.add(("return", val[len(prefix):]))
        elif kind == "raise":
            out.add(("raise", val))
        else:
            out.add(("return", f"?{kind}:{val}"))
    return sorted(out)


def decorated_operand_rule(ctx, I: Interp, rule: str) -> int:
    """EVEX-decorated memory operands (`{1to8}`, `{%k1}` glued behind the parenthesis, as objdump prints AVX-512 code) still
    give ONE field: whatever the normaliser makes of them has no ',' in it and does not make the parser fail"""
    A, B, C, K, D = H("A", "reg"), H("B", "reg"), H("C", "dec"), H("K", "num"), H("D", "reg")
    n = 0
    for label, tpl in (("k(a,b,c){d}", T(K, "(%", A, ",%", B, ",", C, "){", D, "}")), ("(a,b,c){%d}", T("(%", A, ",%", B, ",", C, "){%", D, "}")),
                       ("k(a){d}", T(K, "(%", A, "){", D, "}")), ("(a,b){d}", T("(%", A, ",%", B, "){", D, "}"))):
        outs = normalise(I, tpl)
        n += 1
        ok = bool(outs) and all(k == "return" and "," not in v for k, v in outs)
        ctx.check(ok, rule, f"OperandsParser.parse (one operand)[{label}: {tpl.render()}]", f"gives {outs}"[:200],
                  "a decorated memory operand reaches the stream as one comma-free field")
    return n


def operand_list_shapes() -> List[Tuple[str, Str, List[str]]]:
    A, B, C, K, R = H("A", "reg"), H("B", "reg"), H("C", "dec"), H("K", "num"), H("R", "reg")
    A2, B2, C2, K2, V = H("A2", "reg"), H("B2", "reg"), H("C2", "dec"), H("K2", "num"), H("V", "num")
    mem = [K, "(%", A, ",%", B, ",", C, ")"]
    mem2 = [K2, "(%", A2, ",%", B2, ",", C2, ")"]
    return [
        ("register, memory", T("%", R, ",", *mem), ["%<R>", "<K>(%<A>,%<B>,<C>)"]),
        ("memory, register", T(*mem, ",%", R), ["<K>(%<A>,%<B>,<C>)", "%<R>"]),
        ("immediate, register", T("$", V, ",%", R), ["$<V>", "%<R>"]),
        ("memory, memory", T(*mem, ",", *mem2), ["<K>(%<A>,%<B>,<C>)", "<K2>(%<A2>,%<B2>,<C2>)"]),
        ("(a,b,c), register, immediate", T("(%", A, ",%", B, ",", C, "),%", R, ",$", V), ["(%<A>,%<B>,<C>)", "%<R>", "$<V>"]),
        ("immediate, k(,b,c)", T("$", V, ",", K, "(,%", B, ",", C, ")"), ["$<V>", "<K>(,%<B>,<C>)"]),
        ("three registers", T("%", R, ",%", A, ",%", B), ["%<R>", "%<A>", "%<B>"]),
        ("immediate, memory, register (memory reference in the middle)", T("$", V, ",", *mem, ",%", R), ["$<V>", "<K>(%<A>,%<B>,<C>)", "%<R>"]),
        ("register, (a,b,c), register", T("%", R, ",(%", A, ",%", B, ",", C, "),%", A2), ["%<R>", "(%<A>,%<B>,<C>)", "%<A2>"]),
        ("memory, memory, register", T(*mem, ",", *mem2, ",%", R), ["<K>(%<A>,%<B>,<C>)", "<K2>(%<A2>,%<B2>,<C2>)", "%<R>"]),
        ("single register", T("%", R), ["%<R>"]),
        ("register, (a)", T("%", R, ",(%", A, ")"), ["%<R>", "(%<A>)"]),
    ]


def split_operands(I: Interp, text: Str) -> List[Tuple[str, Any]]:
    lp = I.p.find_class("LineParser")
    m = lp.find_method("get_splitted_operands")
    if m is None:
        raise AnalysisError("anchor LineParser.get_splitted_operands not found")
    out = []
    for path in I.explore(lambda I: I.call_func(m, [], {"operands": text}, None, None, None)):
        if path.kind == "return":
            v = path.value
            if isinstance(v, ListV) and v.absorbed is None and all(isinstance(x, Str) for x in v.items):
                out.append(("return", [x.render() for x in v.items]))
            else:
                out.append(("return", repr(v)[:120]))
        else:
            out.append(("raise", path.exc.type_name))
    return out


# ------------------------------------------------------------------ lines
BYTES = ["c3                   ", "48 89 e5             ", "48 8b 05 00 00 00 00 ", "e8 f5 fe ff ff       "]


def instruction_lines() -> List[Tuple[str, Str, str]]:
    """(label, line template, expected record = Instruction.stringify() rendered)"""
    AD, MN = H("ADDR", "hex"), H("MN", "reg")
    A, B, C, K, R, V, TG, SY = H("A", "reg"), H("B", "reg"), H("C", "dec"), H("K", "num"), H("R", "reg"), H("V", "num"), H("TGT", "hex"), H("SYM", "sym")
    out = [
        ("no operands", T("  ", AD, ":\t", BYTES[0], "\t", MN), "<ADDR>::<MN>,"),
        ("two registers", T("  ", AD, ":\t", BYTES[1], "\t", MN, "    %", R, ",%", A), "<ADDR>::<MN>,%<R>,%<A>"),
        ("immediate, register", T("  ", AD, ":\t", BYTES[1], "\t", MN, "    $", V, ",%", R), "<ADDR>::<MN>,<V>,%<R>"),
        ("register, k(a,b,c)", T("  ", AD, ":\t", BYTES[2], "\t", MN, "    %", R, ",", K, "(%", A, ",%", B, ",", C, ")"),
         "<ADDR>::<MN>,%<R>,[%<A>+%<B>*<C>+<K>]"),
        ("k(a,b,c), register", T("  ", AD, ":\t", BYTES[2], "\t", MN, "    ", K, "(%", A, ",%", B, ",", C, "),%", R),
         "<ADDR>::<MN>,[%<A>+%<B>*<C>+<K>],%<R>"),
        ("(a), register", T("  ", AD, ":\t", BYTES[1], "\t", MN, "    (%", A, "),%", R), "<ADDR>::<MN>,[%<A>],%<R>"),
        ("k(a) with # comment and <symbol>", T("  ", AD, ":\t", BYTES[2], "\t", MN, "    ", K, "(%", A, "),%", R, "        # ", TG, " <", SY, ">"),
         "<ADDR>::<MN>,[%<A>+<K>],%<R>"),
        ("direct call with <symbol>", T("  ", AD, ":\t", BYTES[3], "\tcall   ", TG, " <", SY, ">"), "<ADDR>::call,<TGT>"),
        ("direct jmp with <symbol+off>", T("  ", AD, ":\t", BYTES[3], "\tjmp    ", TG, " <", SY, "+0x", H("OFF", "hex"), ">"), "<ADDR>::jmp,<TGT>"),
        ("k(,b,c), register", T("  ", AD, ":\t", BYTES[2], "\t", MN, "    ", K, "(,%", B, ",", C, "),%", R), "<ADDR>::<MN>,[+%<B>*<C>+<K>],%<R>"),
        ("immediate, k(a,b,c), register", T("  ", AD, ":\t", BYTES[2], "\t", MN, "    $", V, ",", K, "(%", A, ",%", B, ",", C, "),%", R),
         "<ADDR>::<MN>,<V>,[%<A>+%<B>*<C>+<K>],%<R>"),
        ("no indentation", T(AD, ":\t", BYTES[1], "\t", MN, "    %", R, ",%", A), "<ADDR>::<MN>,%<R>,%<A>"),
        ("deep indentation", T("        ", AD, ":\t", BYTES[1], "\t", MN, "    %", R, ",%", A), "<ADDR>::<MN>,%<R>,%<A>"),
        ("one blank before the operands", T("  ", AD, ":\t", BYTES[1], "\t", MN, " %", R, ",%", A), "<ADDR>::<MN>,%<R>,%<A>"),
        ("trailing blanks", T("  ", AD, ":\t", BYTES[1], "\t", MN, "    %", R, ",%", A, "   "), "<ADDR>::<MN>,%<R>,%<A>"),
        ("(bad)", T("  ", AD, ":\t", "ff                   ", "\t(bad)"), "<ADDR>::bad,"),
        ("data16 prefix, no operands", T("  ", AD, ":\t", "66 0f 05             ", "\tdata16 ", MN), "<ADDR>::<MN>,"),
        ("data16 prefix, with operands", T("  ", AD, ":\t", BYTES[2], "\tdata16 ", MN, "    ", K, "(%", A, "),%", R), "<ADDR>::<MN>,[%<A>+<K>],%<R>"),
        ("direct call whose <symbol> is a demangled name with ', ' and '::' in it",
         T("  ", AD, ":\t", BYTES[3], "\tcall   ", TG, " <", SY, "<", H("SY2", "sym"), ", ", H("SY3", "sym"), ">::", H("SY4", "sym"), "() const>"),
         "<ADDR>::call,<TGT>"),
        ("negative displacement -0xk(a)", T("  ", AD, ":\t", BYTES[2], "\t", MN, "    -0x", H("NK", "hex"), "(%", A, "),%", R),
         "<ADDR>::<MN>,[%<A>+-0x<NK>],%<R>"),
        ("negative displacement -0xk(a,b,c)", T("  ", AD, ":\t", BYTES[2], "\t", MN, "    %", R, ",-0x", H("NK", "hex"), "(%", A, ",%", B, ",", C, ")"),
         "<ADDR>::<MN>,%<R>,[%<A>+%<B>*<C>+-0x<NK>]"),
    ]
    return out


def presentation_variants() -> List[Tuple[str, List[Str]]]:
    """groups of lines that show the same instruction in different presentations"""
    AD, MN, R, A, K, TG, SY = H("ADDR", "hex"), H("MN", "reg"), H("R", "reg"), H("A", "reg"), H("K", "num"), H("TGT", "hex"), H("SYM", "sym")
    core = [MN, "    ", K, "(%", A, "),%", R]
    g1 = [T(ind, AD, ":\t", by, "\t", *core, tail) for ind in ("  ", "", "      ") for by in (BYTES[2], "48 8b 05 ")
          for tail in ("", "        # ", "   ")]
    g1 += [T("  ", AD, ":\t", BYTES[2], "\t", *core, "        # ", TG, " <", SY, ">")]
    g1 += [T("  ", AD, ":\t", BYTES[2], "\t", *core, "# glued comment"), T("  ", AD, ":\t", BYTES[2], "\t", *core, "#")]
    call = [T(ind, AD, ":\t", BYTES[3], "\tcall   ", TG, tail) for ind in ("  ", "    ") for tail in ("", " <puts@plt>", " <main+0x1a>")]
    call += [T("  ", AD, ":\t", BYTES[3], "\tcall   ", TG, " <", SY, ">")]
    d16 = [T("  ", AD, ":\t", BYTES[2], "\tdata16 ", *core, tail) for tail in ("", "        # plain comment", "        # data16 again", "   ")]
    return [(f"k(a),%r in {len(g1)} presentations", g1), (f"data16-prefixed k(a),%r in {len(d16)} presentations", d16), (f"direct call in {len(call)} presentations", call)]


def other_lines() -> List[Tuple[str, Any]]:
    """line kinds that must contribute nothing"""
    AD, SY = H("ADDR", "hex"), H("SYM", "sym")
    return [
        ("blank line", Str.lit("")),
        ("section header", Str.lit("Disassembly of section .text:")),
        ("file-format header", Str.lit("a.out:     file format elf64-x86-64")),
        ("file-format header of a file with a drive letter", Str.lit("C:\\fw\\stage2.efi:     file format pei-x86-64")),
        ("file-format header of an archive member", Str.lit("libfw.a:stage2.o:     file format elf64-x86-64")),
        ("file-format header without a colon", Str.lit("stage2.o     file format elf64-x86-64")),
        ("symbol label", T("0000000000", AD, " <", SY, ">:")),
        ("elision", Str.lit("\t...")),
        ("byte-continuation line", T("  ", AD, ":\t00 00 00 ")),
    ]


def parse_line(I: Interp, line: Str) -> List[Tuple[str, str]]:
    """outcomes of LineParser(line).parse(): ('instruction', record) / ('other', description) / ('raise', type)"""
    lp = I.p.find_class("LineParser")
    m = lp.find_method("parse")
    if m is None:
        raise AnalysisError("anchor LineParser.parse not found")
    out = set()
    for path in I.explore(lambda I: I.call_func(m, [], {}, I.construct(lp, [line], {}, None, None), None, None)):
        if path.kind != "return":
            out.add(("raise", path.exc.type_name))
            continue
        v = path.value
        if isinstance(v, Obj) and v.cls.name == "Instruction":
            st = I.call_func(v.cls.find_method("stringify"), [], {}, v, None, None)
            out.add(("instruction", st.render() if isinstance(st, Str) else repr(st)))
        else:
            out.add(("other", type(v).__name__ if not isinstance(v, Obj) else v.cls.name))
    return sorted(out)


# ------------------------------------------------------------------ $deref end to end (C06)
def deref_end_to_end(ctx, I: Interp, rule_match: str, rule_reject: str) -> int:
    """For every presence pattern of {register_multiplier+constant_multiplier, constant_offset} and every spelling of the
    rule's names (register with / without '%', constant with / without '0x', negative offsets as literals): the regex the
    compile pipeline emits for the $deref operand, with the rule's names identified with the operand's components, FULLY
    matches the text the operand normaliser produces for the AT&T operand with the same components (followed by the
    field's ','); and, whatever the names are, it matches the normal form of NO operand with another presence pattern."""
    from . import rx, tokrx
    from .compose import analyse_skeleton
    from .models import Sym
    A, B, C, K = H("A", "reg"), H("B", "reg"), H("C", "dec"), H("K", "hex")
    op = I.p.find_class("OperandsParser")

    def normal_form(t: Str) -> Optional[Str]:
        from .normflow import normalise_one
        paths = I.explore(lambda I, t=t: normalise_one(I, t))
        vals = [p.value for p in paths]
        if len(paths) != 1 or paths[0].kind != "return" or not isinstance(vals[0], Str):
            return None
        return vals[0]

    def operand(has_bc: int, off: List[Any]) -> Str:
        """has_bc: 0 = k(a), 1 = k(a,b) (16-bit addressing, no scale), 2 = k(a,b,c)"""
        parts: List[Any] = list(off) + ["(%", A]
        if has_bc >= 1:
            parts += [",%", B]
        if has_bc == 2:
            parts += [",", C]
        return T(*parts, ")")
    # offsets as objdump prints them, and the spellings a rule may use for each: (label, printed, [(rule value, ident for NK)])
    offsets = [
        ("no offset", [], [(None, None)]),
        ("offset", ["0x", K], [(Sym("NK"), [K]), (Sym("NK"), ["0", "x", K])]),
        ("negative offset", ["-0x8"], [("-0x8", None), ("-8", None), (-8, None)]),
    ]
    normals: Dict[Tuple[int, str], Str] = {}
    for bc in (0, 1, 2):
        for olabel, printed, _ in offsets:
            nf = normal_form(operand(bc, printed))
            if nf is None:
                ctx.fail(rule_match, f"normaliser on {operand(bc, printed).render()}", "no single returning outcome",
                         "the normaliser has exactly one, returning, outcome for the operand")
                continue
            normals[(bc, olabel)] = nf
    n = 0
    undecided: List[str] = []
    regs, nums = tokrx.ALPHABETS["reg"] + "%", tokrx.ALPHABETS["num"]
    for bc in (0, 1, 2):
        for olabel, printed, spellings in offsets:
            if (bc, olabel) not in normals:
                continue
            for rule_value, nk_ident in spellings:
                fields: Dict[str, Any] = {"main_reg": Sym("NA")}
                if rule_value is not None:
                    fields["constant_offset"] = rule_value
                if bc >= 1:
                    fields["register_multiplier"] = Sym("NB")
                if bc == 2:
                    fields["constant_multiplier"] = Sym("NC")
                for an in analyse_skeleton(I, [{Sym("M"): [{"$deref": fields}, Sym("O2")]}]):
                    if not an.ok:
                        continue
                    node = next((x for x in an.root.walk() if x.category == "$deref"), None)
                    if node is None or node.regex is None:
                        raise AnalysisError("no $deref node in the analysed skeleton")
                    ast_ = rx.parse(node.regex)
                    flags = f"mnemonics-full-match={an.flags.get('mn_full')}, operands-full-match={an.flags.get('op_full')}"
                    for reg_pct in (False, True):
                        ident: Dict[str, List[Any]] = {"NA": (["%", A] if reg_pct else [A]), "NB": (["%", B] if reg_pct else [B]), "NC": [C]}
                        if nk_ident is not None:
                            ident["NK"] = nk_ident
                        shape = "a" + ("", ",b", ",b,c")[bc] + ("" if rule_value is None else ",k")
                        spelled = "" if rule_value is None else (f"; offset written {rule_value!r}" if nk_ident is None else
                                                                 f"; offset {'with' if len(nk_ident) > 1 else 'without'} 0x")
                        construct = f"$deref[{shape}; registers {'with' if reg_pct else 'without'} %{spelled}; {olabel}; {flags}]"
                        try:
                            ok = tokrx.fullmatch(ast_, tokrx.symbols(normals[(bc, olabel)]) + [","], ident)
                        except tokrx.Undecided as exc:
                            undecided.append(f"{exc} [{construct}]")
                            continue
                        n += 1
                        ctx.check(ok, rule_match, construct, f"regex {node.regex.render()} vs {normals[(bc, olabel)].render()},"[:200],
                                  "the compiled $deref accepts the normaliser's text for the operand with the same components")
                    # whatever the names are: no operand with another presence pattern is accepted
                    for (bc2, ol2), other in normals.items():
                        if bc2 == bc and (ol2 == "no offset") == (olabel == "no offset"):
                            continue
                        # [a+b] (16-bit, no scale) and [a+k] have the same shape by construction; they differ in the KIND of
                        # the second token (register vs constant), which a rule's name fixes - not a presence-pattern question
                        if {(bc, olabel == "no offset"), (bc2, ol2 == "no offset")} == {(1, True), (0, False)}:
                            continue
                        try:
                            bad = tokrx.fullmatch(ast_, tokrx.symbols(other) + [","], None,
                                                  free={"NA": regs, "NB": regs, "NC": nums, "NK": nums})
                        except tokrx.Undecided as exc:
                            undecided.append(f"{exc} [rejecting {other.render()}]")
                            continue
                        n += 1
                        ctx.check(not bad, rule_reject, f"$deref[{'a' + ('', ',b', ',b,c')[bc] + ('' if rule_value is None else ',k')}; {flags}]",
                                  f"also accepts {other.render()}"[:160], "an operand with an extra or a missing component is not accepted")
    # a step the matcher cannot decide is not a verdict: fail closed, unless a violation was already established
    for u in undecided:
        ctx.defer(f"deref end-to-end undecided: {u}")
    return n


# ------------------------------------------------------------------ rule drivers shared by C08 / C09 / C10 / C16
def normal_form_rule(ctx, I: Interp, rule: str, listed_only: bool = True) -> int:
    n = 0
    for label, tpl, expect, listed in operand_shapes():
        if expect is None or (listed_only and not listed):
            continue
        outs = normalise(I, tpl)
        n += 1
        ctx.check(outs == [("return", expect)], rule, f"OperandsParser.parse (one operand)[{label}: {tpl.render()}]",
                  f"gives {outs}"[:200], f"the AT&T operand {tpl.render()} reaches patterns as {expect}, on every path")
    return n


def operand_split_rule(ctx, I: Interp, rule: str) -> int:
    n = 0
    for label, tpl, expect in operand_list_shapes():
        outs = split_operands(I, tpl)
        n += 1
        ctx.check(outs == [("return", expect)], rule, f"LineParser.get_splitted_operands[{label}: {tpl.render()}]",
                  f"gives {outs}"[:200], f"the operand text splits into {expect}: commas inside parentheses never split, commas between operands always do")
    return n


def line_record_rule(ctx, I: Interp, rule: str, only_memory_operands: bool = False) -> int:
    n = 0
    for label, tpl, expect in instruction_lines():
        if only_memory_operands and "[" not in expect:
            continue
        outs = parse_line(I, tpl)
        n += 1
        ctx.check(outs == [("instruction", expect)], rule, f"LineParser.parse[{label}]", f"{tpl.render()!r} gives {outs}"[:240],
                  f"the line yields exactly one instruction whose record is {expect}")
    return n


def presentation_rule(ctx, I: Interp, rule: str) -> int:
    n = 0
    for label, group in presentation_variants():
        seen = {}
        for t in group:
            seen.setdefault(tuple(parse_line(I, t)), []).append(t.render())
        n += 1
        ok = len(seen) == 1 and all(len(k) == 1 and k[0][0] == "instruction" for k in seen)
        ctx.check(ok, rule, f"LineParser.parse[{label}]", "; ".join(f"{k} <- {v[0]!r}" for k, v in list(seen.items())[:2])[:240],
                  "every presentation of the instruction yields the same single record")
    return n


def other_lines_rule(ctx, I: Interp, rule: str) -> int:
    n = 0
    for label, tpl in other_lines():
        outs = parse_line(I, tpl)
        n += 1
        if label == "byte-continuation line":
            ok = len(outs) == 1 and outs[0][0] == "instruction" and outs[0][1].endswith("::empty,")
            want = "only the 'empty' pseudo instruction, which the first observer removes"
        else:
            ok = bool(outs) and all(k == "other" for k, _ in outs)
            want = "no instruction"
        ctx.check(ok, rule, f"LineParser.parse[{label}]", f"{tpl.render()!r} gives {outs}"[:200], f"a {label} yields {want}")
    return n


def parser_total_rule(ctx, I: Interp, rule: str) -> int:
    """no operand form objdump prints makes the normaliser raise (the listed forms plus the 16-bit addressing forms)"""
    n = 0
    for label, tpl, expect, listed in operand_shapes():
        outs = normalise(I, tpl)
        raises = sorted({t for k, t in outs if k == "raise"})
        n += 1
        ctx.check(not raises, rule, f"OperandsParser.parse (one operand)[{label}]", f"raises {','.join(raises)} on {tpl.render()}"[:160],
                  f"the operand {tpl.render()} (printed by objdump) does not make the parser fail")
    return n


# ------------------------------------------------------------------ thorough tier: the product of operand forms, tails, indentations
def _operand_forms(i: int) -> List[Tuple[str, List[Any], str]]:
    """(label, template parts, expected normal form) of every operand form, with tokens numbered by operand position i"""
    A, B, C, K, V, R = H(f"A{i}", "reg"), H(f"B{i}", "reg"), H(f"C{i}", "dec"), H(f"K{i}", "num"), H(f"V{i}", "num"), H(f"R{i}", "reg")
    return [
        ("$v", ["$", V], f"<V{i}>"),
        ("%r", ["%", R], f"%<R{i}>"),
        ("k(a,b,c)", [K, "(%", A, ",%", B, ",", C, ")"], f"[%<A{i}>+%<B{i}>*<C{i}>+<K{i}>]"),
        ("(a,b,c)", ["(%", A, ",%", B, ",", C, ")"], f"[%<A{i}>+%<B{i}>*<C{i}>]"),
        ("k(,b,c)", [K, "(,%", B, ",", C, ")"], f"[+%<B{i}>*<C{i}>+<K{i}>]"),
        ("k(a)", [K, "(%", A, ")"], f"[%<A{i}>+<K{i}>]"),
        ("(a)", ["(%", A, ")"], f"[%<A{i}>]"),
        ("(,b,c)", ["(,%", B, ",", C, ")"], f"[+%<B{i}>*<C{i}>]"),
        ("(a,b)", ["(%", A, ",%", B, ")"], f"[%<A{i}>+%<B{i}>]"),
        ("k(a,b)", [K, "(%", A, ",%", B, ")"], f"[%<A{i}>+%<B{i}>+<K{i}>]"),
    ]


def thorough_lines() -> List[Tuple[str, Str, str]]:
    """every operand list of one, two or three operand forms x tail (none, # comment, <symbol>) x indentation"""
    import itertools
    AD, MN, TG, SY = H("ADDR", "hex"), H("MN", "reg"), H("TGT", "hex"), H("SYM", "sym")
    tails = [("", []), (" # comment", ["        # ", TG, " <", SY, ">"]), (" <symbol>", [" <", SY, "+0x", H("OFF", "hex"), ">"])]
    out = []
    for n in (1, 2, 3):
        pools = [_operand_forms(i) for i in range(n)]
        if n == 3:
            pools = [p[:7:2] for p in pools]      # 4 forms per position for triples
        for combo in itertools.product(*pools):
            parts: List[Any] = []
            for j, (_, tp, _) in enumerate(combo):
                parts += ([","] if j else []) + tp
            expect = "<ADDR>::<MN>," + ",".join(e for _, _, e in combo)
            for tl, tparts in tails:
                for ind in ("  ", ""):
                    label = "+".join(l for l, _, _ in combo) + tl + (" (no indent)" if not ind else "")
                    out.append((label, T(ind, AD, ":\t", BYTES[2], "\t", MN, "    ", *parts, *tparts), expect))
    return out


def thorough_line_rule(ctx, I: Interp, rule: str) -> int:
    n = 0
    for label, tpl, expect in thorough_lines():
        outs = parse_line(I, tpl)
        n += 1
        ctx.check(outs == [("instruction", expect)], rule, f"LineParser.parse[{label}]", f"{tpl.render()!r} gives {outs}"[:240],
                  f"the line yields exactly one instruction whose record is {expect}")
    return n


# ------------------------------------------------------------------ whole listings (file order; sections and labels do not matter)
def listing_templates() -> List[Tuple[str, Str, List[str]]]:
    """(label, listing text template, expected records in file order). Every line has its own tokens, so order is visible.
    Section names and symbol names repeat: a listing may name a section twice (COMDAT groups, `ld -r`) and two labels may
    carry the same name (static functions); neither is part of the instruction sequence."""
    def parts(i):
        return (H(f"A{i}", "hex"), H(f"M{i}", "mn"), H(f"R{i}", "mn"), H(f"Q{i}", "mn"), H(f"K{i}", "num"), H(f"T{i}", "hex"))
    SY, OT = H("SYM", "symn"), H("OTHER", "symn")
    L = []

    def line(*p):
        L.append(list(p))
    a1, m1, r1, q1, _, _ = parts(1)
    a2, m2, *_ = parts(2)
    a3, m3, r3, q3, k3, t3 = parts(3)
    a4, _, _, _, _, t4 = parts(4)
    a5, m5, *_ = parts(5)
    a6 = H("A6", "hex")
    line("")
    line("a.out:     file format elf64-x86-64")
    line("")
    line("")
    line("Disassembly of section .text:")
    line("")
    line("0000000000", H("S1", "hex"), " <", SY, ">:")
    line("  ", a1, ":\t", BYTES[1], "\t", m1, "    %", r1, ",%", q1)
    line("  ", a2, ":\t", BYTES[0], "\t", m2)
    line("\t...")
    line("0000000000", H("S2", "hex"), " <", SY, ">:")
    line("  ", a3, ":\t", BYTES[2], "\t", m3, "    ", k3, "(%", q3, "),%", r3, "        # ", t3, " <", SY, ">")
    line("  ", a6, ":\t00 00 00 ")
    line("")
    line("Disassembly of section .plt:")
    line("")
    line("0000000000", H("S3", "hex"), " <", OT, ">:")
    line("  ", a4, ":\t", BYTES[3], "\tcall   ", t4, " <", SY, ">")
    line("")
    line("Disassembly of section .text:")
    line("")
    line("0000000000", H("S4", "hex"), " <", SY, ">:")
    line("  ", a5, ":\t", BYTES[0], "\t", m5)
    line("")
    flat: List[Any] = []
    for i, p in enumerate(L):
        if i:
            flat.append("\n")
        flat.extend(p)
    expect = ["<A1>::<M1>,%<R1>,%<Q1>", "<A2>::<M2>,", "<A3>::<M3>,[%<Q3>+<K3>],%<R3>", "<A6>::empty,", "<A4>::call,<T4>", "<A5>::<M5>,"]
    return [("two sections of one name, two labels of one name, comment, elision, byte continuation", T(*flat), expect)]


def listing_order_rule(ctx, I: Interp, rule: str) -> int:
    """ObjdumpParserManual.parse on whole listing templates: the consumer receives exactly the instruction lines' records,
    once each, in file order (the byte-continuation pseudo instruction included: the consumer's first observer removes it)"""
    from .values import Unknown
    opm = I.p.find_class("ObjdumpParserManual")
    if opm is None or opm.find_method("parse") is None:
        raise AnalysisError("anchor ObjdumpParserManual.parse not found")
    n = 0
    for label, text, expect in listing_templates():
        def thunk(I, text=text):
            o = I.construct(opm, [], {}, None, None)
            cons = Unknown("CONSUMER", {"truthy": True, "not_none": True})
            return I.call_func(opm.find_method("parse"), [text, cons], {}, o, None, None)
        for p in I.explore(thunk):
            n += 1
            if p.kind != "return":
                ctx.fail(rule, f"ObjdumpParserManual.parse[{label}]", f"raises {p.exc.type_name}", "parsing a well-formed listing raises")
                continue
            got = []
            for e in p.events:
                if e.kind == "call_unknown" and e.target.endswith("consume_instruction") and e.args:
                    v = e.args[0]
                    if isinstance(v, Obj) and v.cls.find_method("stringify") is not None:
                        st = I.call_func(v.cls.find_method("stringify"), [], {}, v, None, None)
                        got.append(st.render() if isinstance(st, Str) else repr(st))
                    else:
                        got.append(repr(v)[:60])
            ctx.check(got == expect, rule, f"ObjdumpParserManual.parse[{label}]", f"forwarded {got}"[:300],
                      "the instruction lines reach the consumer once each, in file order; sections, labels, comments do not matter")
    return n
