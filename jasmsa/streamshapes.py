"""streamshapes -- the compiled regex of a pattern skeleton searched in *stream templates* (token templates of the
instruction stream), deciding end to end, for every instantiation of the tokens at once, where the rule is found.

A stream template is the consumer's stream `addr::mnemonic,operand,...,|` per instruction, whose address is a hex token
and whose mnemonic / operand fields are made of tokens: the rule's own names (identified with the name holes of the
compiled regex) optionally surrounded by other tokens (so that 'occurs in' and 'equals' can be told apart), and
unrelated tokens.  Distinct tokens are GENERIC: none is assumed to contain another (the negative cases are decided for
generic instantiations; the positive ones for all instantiations)."""
from __future__ import annotations

from typing import Any, Dict, List, Optional, Sequence, Tuple

from . import rx, tokrx
from .facts import AnalysisError
from .tokrx import tok

Rec = Tuple[str, List[Any], List[List[Any]]]    # (address tag, mnemonic symbols, [operand symbols, ...])


def record(addr: str, mnemonic: Sequence[Any], operands: Sequence[Sequence[Any]]) -> List[Any]:
    out: List[Any] = [tok(addr, "hex"), ":", ":"] + list(mnemonic) + [","]
    if operands:
        for o in operands:
            out += list(o) + [","]
    else:
        out += [","]            # an operand-less instruction has one empty operand field
    return out + ["|"]


def stream(records: Sequence[List[Any]]) -> Tuple[List[Any], List[Tuple[int, int]]]:
    """(symbols, [(start, end) of every record])"""
    syms: List[Any] = []
    spans = []
    for r in records:
        spans.append((len(syms), len(syms) + len(r)))
        syms += r
    return syms, spans


def N(tag: str):
    """the subject-side token that a rule's name `tag` is identified with"""
    return tok("n" + tag, "reg")


def X(tag: str):
    return tok(tag, "reg")


def find(regex, syms: List[Any], names: Sequence[str]) -> Optional[Tuple[int, int]]:
    ident = {t: [N(t)] for t in names}
    ast_ = regex if isinstance(regex, rx.Node) else rx.parse(regex)
    return tokrx.search(ast_, syms, ident)


# ------------------------------------------------------------------ end-to-end cases (C01-C04, C07)
class _B:
    """builds records for one flag setting: a field that must 'contain' a name is pre+name+post in substring mode and the
    bare name under the corresponding full-match flag"""

    def __init__(self, mn_full: bool, op_full: bool) -> None:
        self.mn_full, self.op_full = mn_full, op_full
        self.k = 0
        self.history: List[List[List[Any]]] = []     # operands of the records built so far
        self.full: List[Tuple[List[Any], List[List[Any]]]] = []

    def mn(self, name: str) -> List[Any]:
        self.k += 1
        return [N(name)] if self.mn_full else [X(f"pm{self.k}"), N(name), X(f"sm{self.k}")]

    def op(self, name: str) -> List[Any]:
        self.k += 1
        return [N(name)] if self.op_full else [X(f"po{self.k}"), N(name), X(f"so{self.k}")]

    def other(self) -> List[Any]:
        self.k += 1
        return [X(f"z{self.k}")]

    def rec(self, mnemonic: Optional[str], operands: Sequence[Optional[str]] = ()) -> List[Any]:
        self.k += 1
        mn = self.mn(mnemonic) if mnemonic else self.other()
        ops = [self.op(o) if o else self.other() for o in operands]
        self.history.append(ops)
        self.full.append((mn, ops))
        return record(f"a{self.k}", mn, ops)


def _with(b: "_B", mnemonic: str, operands: Sequence[Any]) -> List[Any]:
    """a record whose operands may repeat an operand of an earlier record: ('same', record index, operand index)"""
    ops = []
    for o in operands:
        if isinstance(o, tuple) and o[0] == "same":
            ops.append(list(b.history[o[1]][o[2]]))
        elif o:
            ops.append(b.op(o))
        else:
            ops.append(b.other())
    b.k += 1
    b.history.append(ops)
    return record(f"a{b.k}", b.mn(mnemonic), ops)


def _same_rec(b: "_B", idx: int) -> List[Any]:
    """the same instruction text as record idx, at a new address"""
    b.k += 1
    mn, ops = b.full[idx]
    b.history.append(ops)
    b.full.append((mn, ops))
    return record(f"a{b.k}", mn, ops)


def cases() -> List[Tuple[str, str, Any, List[str], List[Tuple[str, Any, Optional[Tuple[int, int]]]]]]:
    """(property, label, pattern skeleton, names, [(case label, builder -> records, expected (first, last) record or None)])"""
    from .models import Sym
    S = Sym
    out = []
    seq = [{S("M1"): [S("O1"), S("O2")]}, {S("M2"): [S("O3")]}]
    out.append(("C01", "two instructions with operands", seq, ["M1", "O1", "O2", "M2", "O3"], [
        ("present, between unrelated instructions, further operands ignored",
         lambda b: [b.rec(None, [None]), b.rec("M1", ["O1", "O2", None]), b.rec("M2", ["O3"]), b.rec(None)], (1, 2)),
        ("second operand name only in the third operand", lambda b: [b.rec("M1", ["O1", None, "O2"]), b.rec("M2", ["O3"])], None),
        ("operand names swapped", lambda b: [b.rec("M1", ["O2", "O1"]), b.rec("M2", ["O3"])], None),
        ("an instruction in between", lambda b: [b.rec("M1", ["O1", "O2"]), b.rec(None, [None]), b.rec("M2", ["O3"])], None),
        ("instructions in the other order", lambda b: [b.rec("M2", ["O3"]), b.rec("M1", ["O1", "O2"])], None),
        ("operand name occurs only in the mnemonic field", lambda b: [b.rec("M1", ["O1", "O2"]), b.rec("O3", [None]), b.rec("M2", [None])], None),
        ("first instruction has too few operands", lambda b: [b.rec("M1", ["O1"]), b.rec("M2", ["O3"])], None),
        ("second occurrence is the one that fits", lambda b: [b.rec("M1", ["O1", None]), b.rec("M1", ["O1", "O2"]), b.rec("M2", ["O3"])], (1, 2)),
    ]))
    orp = [S("A"), {"$or": [S("B"), S("C")]}, S("D")]
    out.append(("C03", "a, $or[b,c], d", orp, ["A", "B", "C", "D"], [
        ("a b d", lambda b: [b.rec(None), b.rec("A"), b.rec("B"), b.rec("D")], (1, 3)),
        ("a c d", lambda b: [b.rec("A"), b.rec("C"), b.rec("D")], (0, 2)),
        ("a b c d (both alternatives in a row)", lambda b: [b.rec("A"), b.rec("B"), b.rec("C"), b.rec("D")], None),
        ("a d (no alternative)", lambda b: [b.rec("A"), b.rec("D")], None),
        ("a x d (another instruction)", lambda b: [b.rec("A"), b.rec(None), b.rec("D")], None),
    ]))
    anyo = [S("A"), {"$and_any_order": [S("B"), {S("C"): [S("O")]}]}, S("D")]
    out.append(("C03", "a, $and_any_order[b, c(o)], d", anyo, ["A", "B", "C", "O", "D"], [
        ("a b c d", lambda b: [b.rec("A"), b.rec("B"), b.rec("C", ["O"]), b.rec("D")], (0, 3)),
        ("a c b d", lambda b: [b.rec("A"), b.rec("C", ["O"]), b.rec("B"), b.rec("D")], (0, 3)),
        ("a b b d (a child twice, one missing)", lambda b: [b.rec("A"), b.rec("B"), b.rec("B"), b.rec("D")], None),
        ("a b d (one child only)", lambda b: [b.rec("A"), b.rec("B"), b.rec("D")], None),
        ("a b x c d (not consecutive)", lambda b: [b.rec("A"), b.rec("B"), b.rec(None), b.rec("C", ["O"]), b.rec("D")], None),
    ]))
    opor = [{S("M"): [{"$or": [S("P"), S("Q")]}, S("R")]}]
    out.append(("C03", "m: [$or[p,q], r] (operand level)", opor, ["M", "P", "Q", "R"], [
        ("m p,r", lambda b: [b.rec("M", ["P", "R"])], (0, 0)),
        ("m q,r", lambda b: [b.rec("M", ["Q", "R"])], (0, 0)),
        ("m p,q,r (both alternatives as two operands)", lambda b: [b.rec("M", ["P", "Q", "R"])], None),
        ("m r (alternative missing)", lambda b: [b.rec("M", ["R"])], None),
    ]))
    notp = [{"$not": [{"$and": [S("P"), S("Q")]}]}, S("Y")]
    out.append(("C04", "$not[$and[p,q]], y", notp, ["P", "Q", "Y"], [
        ("z y", lambda b: [b.rec(None), b.rec("Y")], (0, 1)),
        ("p q y: X matches at p, fails at q -> the match is q y", lambda b: [b.rec("P"), b.rec("Q"), b.rec("Y")], (1, 2)),
        ("p r y: X fails at p but the next instruction is not y -> the match is r y", lambda b: [b.rec("P"), b.rec(None), b.rec("Y")], (1, 2)),
        ("p q alone then y missing", lambda b: [b.rec("P"), b.rec("Q")], None),
        ("y alone (nothing for $not to consume)", lambda b: [b.rec("Y")], None),
    ]))
    opnot = [{S("M"): [{"$not": [S("P")]}, S("R")]}]
    out.append(("C04", "m: [$not[p], r] (operand level)", opnot, ["M", "P", "R"], [
        ("m z,r", lambda b: [b.rec("M", [None, "R"])], (0, 0)),
        ("m p,r (the negated operand is there)", lambda b: [b.rec("M", ["P", "R"])], None),
        ("m z,w,r ($not must not swallow two operands)", lambda b: [b.rec("M", [None, None, "R"])], None),
        ("m r (no operand for $not)", lambda b: [b.rec("M", ["R"])], None),
    ]))
    nott = [{"$not": [S("P")], "times": 2}, S("Y")]
    out.append(("C04", "$not[p] times 2, y", nott, ["P", "Y"], [
        ("z w y", lambda b: [b.rec(None), b.rec(None), b.rec("Y")], (0, 2)),
        ("z p y (the negated instruction is the second of the run)", lambda b: [b.rec(None), b.rec("P"), b.rec("Y")], None),
        ("p z w y: the run of two starts after p", lambda b: [b.rec("P"), b.rec(None), b.rec(None), b.rec("Y")], (1, 3)),
        ("z y (one instruction only)", lambda b: [b.rec(None), b.rec("Y")], None),
    ]))
    opnott = [{S("M"): [{"$not": [S("P")], "times": 2}, S("R")]}]
    out.append(("C04", "m: [$not[p] times 2, r] (operand level)", opnott, ["M", "P", "R"], [
        ("m z,w,r", lambda b: [b.rec("M", [None, None, "R"])], (0, 0)),
        ("m z,p,r", lambda b: [b.rec("M", [None, "P", "R"])], None),
        ("m z,r", lambda b: [b.rec("M", [None, "R"])], None),
    ]))
    cap = [{S("M1"): ["&x", S("O1")]}, {S("M2"): ["&x", "&y"]}, {S("M3"): ["&y"]}]
    out.append(("C05", "m1: [&x, o1]; m2: [&x, &y]; m3: [&y]", cap, ["M1", "O1", "M2", "M3"], [
        ("same operand text again, second name bound later", lambda b: [b.rec("M1", [None, "O1"]), _with(b, "M2", [("same", 0, 0), None]), _with(b, "M3", [("same", 1, 1)])], (0, 2)),
        ("&x differs at its second occurrence", lambda b: [b.rec("M1", [None, "O1"]), b.rec("M2", [None, None]), b.rec("M3", [None])], None),
        ("&y differs at its second occurrence", lambda b: [b.rec("M1", [None, "O1"]), _with(b, "M2", [("same", 0, 0), None]), b.rec("M3", [None])], None),
        ("&x equal only to the other operand of the first instruction", lambda b: [b.rec("M1", [None, "O1"]), _with(b, "M2", [("same", 0, 1), None]), _with(b, "M3", [("same", 1, 1)])], None),
    ]))
    icap = ["&i", S("X"), "&i"]
    out.append(("C05", "&i, x, &i (instruction captures)", icap, ["X"], [
        ("the same instruction (mnemonic and operands) again, at another address", lambda b: [b.rec(None, [None]), b.rec("X"), _same_rec(b, 0)], (0, 2)),
        ("another instruction in third place", lambda b: [b.rec(None, [None]), b.rec("X"), b.rec(None, [None])], None),
    ]))
    t2 = [{S("M"): {"times": 2}}, S("N")]
    out.append(("C02", "m times 2, n", t2, ["M", "N"], [
        ("m m n", lambda b: [b.rec("M"), b.rec("M"), b.rec("N")], (0, 2)),
        ("m n", lambda b: [b.rec("M"), b.rec("N")], None),
        ("m m m n: the run of exactly two before n", lambda b: [b.rec("M"), b.rec("M"), b.rec("M"), b.rec("N")], (1, 3)),
        ("m x m n", lambda b: [b.rec("M"), b.rec(None), b.rec("M"), b.rec("N")], None),
    ]))
    t02 = [S("A"), {"$or": [S("B"), S("C")], "times": {"min": 0, "max": 2}}, S("N")]
    out.append(("C02", "a, $or[b,c] times 0..2, n", t02, ["A", "B", "C", "N"], [
        ("a n (absent)", lambda b: [b.rec("A"), b.rec("N")], (0, 1)),
        ("a b n", lambda b: [b.rec("A"), b.rec("B"), b.rec("N")], (0, 2)),
        ("a c b n", lambda b: [b.rec("A"), b.rec("C"), b.rec("B"), b.rec("N")], (0, 3)),
        ("a b c b n (three repetitions)", lambda b: [b.rec("A"), b.rec("B"), b.rec("C"), b.rec("B"), b.rec("N")], None),
    ]))
    grp = [{"$and": [S("P"), S("Q")], "times": 2}, S("N")]
    out.append(("C02", "$and[p,q] times 2, n", grp, ["P", "Q", "N"], [
        ("p q p q n", lambda b: [b.rec("P"), b.rec("Q"), b.rec("P"), b.rec("Q"), b.rec("N")], (0, 4)),
        ("p q n", lambda b: [b.rec("P"), b.rec("Q"), b.rec("N")], None),
        ("p p q q n", lambda b: [b.rec("P"), b.rec("P"), b.rec("Q"), b.rec("Q"), b.rec("N")], None),
    ]))
    return out


def end_to_end(ctx, I, prop: str, rule_found: str, rule_absent: str) -> int:
    """the compiled regex of each skeleton, under each of the 4 flag settings, searched in stream templates: found with
    exactly the expected first and last instruction, or not found"""
    from .compose import analyse_skeleton
    n = 0
    for pr, label, pattern, names, cs in cases():
        if pr != prop and not (prop == "C07"):
            continue
        for an in analyse_skeleton(I, pattern):
            if not an.ok:
                continue
            mn, op = bool(an.flags.get("mn_full")), bool(an.flags.get("op_full"))
            ast_ = rx.parse(an.regex)
            for clabel, build, expect in cs:
                syms, spans = stream(build(_B(mn, op)))
                construct = f"{label} [{clabel}; mnemonics-full-match={mn}, operands-full-match={op}]"
                try:
                    got = find(ast_, syms, names)
                except tokrx.Undecided as exc:
                    ctx.defer(f"stream search undecided: {exc} [{construct}]")
                    continue
                n += 1
                if expect is None:
                    if prop == "C07":
                        continue
                    ctx.check(got is None, rule_absent, construct, f"found at symbols {got}", "the rule is not found in this listing")
                else:
                    want = (spans[expect[0]][0], spans[expect[1]][1])
                    ctx.check(got == want, rule_found, construct, f"found {got}, expected {want} (record spans {spans})"[:200],
                              "the rule is found, the match begins at the first character of the expected first instruction's "
                              "record and ends with the '|' of the expected last one")
    return n


# ------------------------------------------------------------------ canonical witnesses of skeletons (positive end-to-end)
class _W:
    """builds, from the expected tree of a skeleton (skeletons.E), one stream that the rule MUST be found in: every
    leaf becomes a record / field that contains its name (or equals it under the full-match flag), `$or` takes its
    first alternative, `$and_any_order` its children in reversed order, `$not` an unrelated unit, a repetition its lower
    bound (at least once when the upper bound allows), captures repeat the text they bound, register-family captures
    spell one register at the width of each occurrence"""

    REGS = {"&genreg": {"64": "%rbx", "32": "%ebx", "16": "%bx", "8h": "%bh", "8l": "%bl", "": "%rbx"},
            "&indreg": {"64": "%rsi", "32": "%esi", "16": "%si", "8l": "%sil", "": "%rsi"},
            "&stackreg": {"64": "%rsp", "32": "%esp", "16": "%sp", "8l": "%spl", "": "%rsp"},
            "&basereg": {"64": "%rbp", "32": "%ebp", "16": "%bp", "8l": "%bpl", "": "%rbp"}}

    def __init__(self, mn_full: bool, op_full: bool) -> None:
        self.mn_full, self.op_full = mn_full, op_full
        self.k = 0
        self.names: List[str] = []
        self.bound: Dict[str, List[Any]] = {}        # capture name -> bound symbols (operand / instruction text)
        self.unsupported: Optional[str] = None

    def fresh(self, p: str) -> Any:
        self.k += 1
        return X(f"{p}{self.k}")

    def name_syms(self, name: Any, full: bool) -> List[Any]:
        from .models import Sym
        if isinstance(name, Sym):
            if name.tag not in self.names:
                self.names.append(name.tag)
            core: List[Any] = [N(name.tag)]
        else:
            core = list(str(name))
        return core if full else [self.fresh("p")] + core + [self.fresh("s")]

    def times(self, e) -> int:
        lo, hi = e.expected_times()
        if lo > 40:
            self.unsupported = "repetition bound too large for a written-out witness"
            return 0
        return lo

    # ---- operand level -----------------------------------------------------
    def operand(self, e) -> Optional[List[List[Any]]]:
        """the operand fields (each a symbol list) that e consumes"""
        n = self.times(e)
        one = self.operand_once(e)
        if one is None:
            return None
        out: List[List[Any]] = []
        for i in range(n):
            out += [list(f) for f in (one if i == 0 else (self.operand_once(e) or []))]
        return out

    def operand_once(self, e) -> Optional[List[List[Any]]]:
        name = e.name
        if e.fields is not None:                       # $deref
            f = e.fields
            def val(x) -> Optional[List[Any]]:
                if hasattr(x, "name"):
                    if x.kids is not None:
                        if x.name == "$or":
                            return val(x.kids[0])
                        self.unsupported = "operator inside a $deref field"
                        return None
                    return self.field_value(x.name, reg=True)
                return self.field_value(x, reg=True)
            a = val(f["main_reg"]) if "main_reg" in f else None
            if a is None:
                self.unsupported = self.unsupported or "$deref without main_reg"
                return None
            syms: List[Any] = ["["] + self._pct(a)
            if "register_multiplier" in f:
                b = val(f["register_multiplier"])
                if b is None:
                    return None
                syms += ["+"] + self._pct(b)
                if "constant_multiplier" in f:
                    c = val(f["constant_multiplier"])
                    if c is None:
                        return None
                    syms += ["*"] + c
            elif "constant_multiplier" in f:
                c = val(f["constant_multiplier"])
                if c is None:
                    return None
                syms += ["+"] + c
            if "constant_offset" in f:
                kk = val(f["constant_offset"])
                if kk is None:
                    return None
                syms += ["+"] + kk
            return [syms + ["]"]]
        if e.kids is None:
            v = self.field_value(name, reg=False)
            return None if v is None else [v]
        if name == "$or":
            return self.operand(e.kids[0])
        if name in ("$and", "$and_any_order"):
            kids = list(e.kids) if name == "$and" else list(reversed(e.kids))
            out: List[List[Any]] = []
            for kd in kids:
                r = self.operand(kd)
                if r is None:
                    return None
                out += r
            return out
        if name == "$not":
            return [[self.fresh("z")]]
        self.unsupported = f"operand-level {name}"
        return None

    def _pct(self, syms: List[Any]) -> List[Any]:
        return syms if syms and syms[0] == "%" else ["%"] + syms

    def field_value(self, name: Any, reg: bool) -> Optional[List[Any]]:
        """the text of an operand (or deref component) that a name / capture stands for"""
        if isinstance(name, str) and name.startswith("&"):
            fam = next((f for f in self.REGS if name.startswith(f)), None)
            if fam is not None:
                suffix = name.rsplit(".", 1)[1].lower() if "." in name and name.rsplit(".", 1)[1].lower() in ("64", "32", "16", "8h", "8l") else ""
                base = name.rsplit(".", 1)[0] if suffix else name
                if suffix not in self.REGS[fam]:
                    self.unsupported = f"{fam} at width {suffix}"
                    return None
                self.bound.setdefault(base, [fam])
                return list(self.REGS[fam][suffix])
            if name not in self.bound:
                self.bound[name] = [self.fresh("c")]
            return list(self.bound[name])
        if isinstance(name, str) and _looks_hex_h(name):
            self.unsupported = "h-suffixed name (known finding)"
            return None
        if reg:
            return self.name_syms(name, True)
        return self.name_syms(name, self.op_full)

    # ---- instruction level --------------------------------------------------
    def instr(self, e) -> Optional[List[List[Any]]]:
        """the records e consumes"""
        n = self.times(e)
        out: List[List[Any]] = []
        for _ in range(n):
            r = self.instr_once(e)
            if r is None:
                return None
            out += r
        return out

    def instr_once(self, e) -> Optional[List[List[Any]]]:
        name = e.name
        if isinstance(name, str) and name.startswith("&") and e.kids is None:
            if name not in self.bound:
                mn, ops = [self.fresh("im")], [[self.fresh("io")]]
                self.bound[name] = [("rec", mn, ops)]
            _, mn, ops = self.bound[name][0]
            self.k += 1
            return [record(f"a{self.k}", list(mn), [list(o) for o in ops])]
        if isinstance(name, str) and name in ("$and", "$and_any_order", "$or", "$not"):
            if name == "$or":
                return self.instr(e.kids[0])
            if name == "$not":
                if any(getattr(kd, "name", None) == "$not" for kd in (e.kids or [])):
                    self.unsupported = "a negated negation has no canonical one-instruction witness"
                    return None
                self.k += 1
                return [record(f"a{self.k}", [self.fresh("zm")], [[self.fresh("zo")]])]
            kids = list(e.kids) if name == "$and" else list(reversed(e.kids))
            out: List[List[Any]] = []
            for kd in kids:
                r = self.instr(kd)
                if r is None:
                    return None
                out += r
            return out
        # a mnemonic item
        ops: List[List[Any]] = []
        for kd in (e.kids or []):
            r = self.operand(kd)
            if r is None:
                return None
            ops += r
        self.k += 1
        return [record(f"a{self.k}", self.name_syms(name, self.mn_full), ops)]


def _all_names(y: Any) -> List[str]:
    from .models import Sym
    out: List[str] = []

    def rec(x: Any) -> None:
        if isinstance(x, Sym):
            if x.tag not in out:
                out.append(x.tag)
        elif isinstance(x, dict):
            for k, v in x.items():
                rec(k)
                rec(v)
        elif isinstance(x, (list, tuple)):
            for v in x:
                rec(v)
    rec(y)
    return out


def _looks_hex_h(name: str) -> bool:
    import re as _re
    return bool(_re.fullmatch(r"[0-9a-fA-F]+h", name)) and name.lower() not in ("ah", "bh", "ch", "dh")


def witnesses(ctx, I, prop_rule: str, tags: Sequence[str] = (), skip_tags: Sequence[str] = ("hex",)) -> int:
    """every skeleton of the quick family (4 flag settings): its canonical witness stream is found, from the first
    character of the first record to the '|' of the last"""
    from .compose import analyse_skeleton
    from .skeletons import quick_family
    n = skipped = 0
    for sk in quick_family():
        if tags and not (set(tags) & set(sk.tags)):
            continue
        if set(skip_tags) & set(sk.tags):
            continue
        for an in analyse_skeleton(I, sk.yaml()):
            if not an.ok:
                continue
            mn, op = bool(an.flags.get("mn_full")), bool(an.flags.get("op_full"))
            w = _W(mn, op)
            w.names = _all_names(sk.yaml())          # names that the witness does not use are tokens too (they occur nowhere)
            recs = w.instr(sk.root())
            if recs is None or not recs or w.unsupported:
                skipped += 1
                continue
            syms, spans = stream(recs)
            construct = f"{sk.label} [mnemonics-full-match={mn}, operands-full-match={op}]"
            try:
                got = find(rx.parse(an.regex), syms, w.names)
            except tokrx.Undecided as exc:
                ctx.defer(f"witness search undecided: {exc} [{construct}]")
                continue
            n += 1
            ctx.check(got == (0, len(syms)), prop_rule, construct, f"found {got} in a stream of {len(syms)} symbols ({len(recs)} records)",
                      "the canonical listing of the rule (first alternatives, reversed any-order, lower repetition bounds, "
                      "unrelated units for $not, repeated captures) is matched from its first to its last character")
    ctx.extra["witness_skipped"] = skipped
    return n
