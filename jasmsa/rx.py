"""rx -- a small regex parser over string templates (holes and joins are first-class nodes)
and the syntactic utilities the obligations are phrased in."""
from __future__ import annotations

from dataclasses import dataclass, field
from typing import Any, Callable, Iterator, List, Optional, Sequence, Set, Tuple, Union

from .facts import AnalysisError
from .values import Hole, Join, Lit, Str


class RegexSyntaxError(AnalysisError):
    pass


# ------------------------------------------------------------------ nodes
class Node:
    def children(self) -> List["Node"]:
        return []


@dataclass
class Char(Node):
    c: str

    def __repr__(self) -> str:
        return repr(self.c)[1:-1] if self.c not in "|()[]{}?*+.\\^$" else "\\" + self.c


@dataclass
class AnyChar(Node):
    def __repr__(self) -> str:
        return "."


@dataclass
class Cls(Node):
    negated: bool
    chars: Set[str] = field(default_factory=set)
    ranges: List[Tuple[str, str]] = field(default_factory=list)
    cats: Set[str] = field(default_factory=set)  # d D w W s S

    def _in_set(self, c: str) -> bool:
        if c in self.chars:
            return True
        if any(a <= c <= b for a, b in self.ranges):
            return True
        for cat in self.cats:
            if cat == "d" and c.isdigit():
                return True
            if cat == "D" and not c.isdigit():
                return True
            if cat == "w" and (c.isalnum() or c == "_"):
                return True
            if cat == "W" and not (c.isalnum() or c == "_"):
                return True
            if cat == "s" and c.isspace():
                return True
            if cat == "S" and not c.isspace():
                return True
        return False

    def matches(self, c: str) -> bool:
        return self._in_set(c) != self.negated

    def __repr__(self) -> str:
        body = "".join(sorted(self.chars)) + "".join(f"{a}-{b}" for a, b in self.ranges) + "".join(
            "\\" + c for c in sorted(self.cats))
        return "[" + ("^" if self.negated else "") + body + "]"


@dataclass
class Anchor(Node):
    kind: str  # ^ $ \b ...

    def __repr__(self) -> str:
        return self.kind


@dataclass
class Group(Node):
    kind: str  # 'nc' non-capturing, 'cap', 'la' (?=, 'nla' (?!, 'lb' (?<=, 'nlb' (?<!, 'flags'
    body: Node
    index: int = 0
    name: Optional[str] = None

    def children(self) -> List[Node]:
        return [self.body]

    def __repr__(self) -> str:
        pre = {"nc": "(?:", "cap": "(", "la": "(?=", "nla": "(?!", "lb": "(?<=", "nlb": "(?<!", "atomic": "(?>"}[self.kind]
        return f"{pre}{self.body!r})"


@dataclass
class Rep(Node):
    body: Node
    lo: Any  # int | Hole
    hi: Any  # int | None (unbounded) | Hole
    lazy: bool = False
    whole: Any = None  # a Hole standing for the complete quantifier text

    def children(self) -> List[Node]:
        return [self.body]

    def __repr__(self) -> str:
        if self.whole is not None:
            return f"{self.body!r}{self.whole!r}"
        if (self.lo, self.hi) == (0, 1):
            q = "?"
        elif (self.lo, self.hi) == (0, None):
            q = "*"
        elif (self.lo, self.hi) == (1, None):
            q = "+"
        elif self.lo == self.hi:
            q = "{%r}" % (self.lo,)
        else:
            q = "{%r,%s}" % (self.lo, "" if self.hi is None else repr(self.hi))
        return f"{self.body!r}{q}"


@dataclass
class Seq(Node):
    items: List[Node]

    def children(self) -> List[Node]:
        return list(self.items)

    def __repr__(self) -> str:
        return "".join(map(repr, self.items))


@dataclass
class Alt(Node):
    branches: List[Node]

    def children(self) -> List[Node]:
        return list(self.branches)

    def __repr__(self) -> str:
        return "|".join(map(repr, self.branches))


@dataclass
class HoleN(Node):
    hole: Hole

    def __repr__(self) -> str:
        return repr(self.hole)


@dataclass
class JoinN(Node):
    sep: Node
    elem: Node
    src: str
    flags: dict
    sep_text: str = ""

    def children(self) -> List[Node]:
        return [self.sep, self.elem]

    def __repr__(self) -> str:
        return f"JOIN({self.sep_text!r},{self.elem!r} over {self.src})"


@dataclass
class BackRef(Node):
    ref: Any  # int | Hole

    def __repr__(self) -> str:
        return f"\\{self.ref!r}"


# ------------------------------------------------------------------ tokens
Tok = Union[str, Hole, Join]


def tokens_of(t: Union[Str, str]) -> List[Tok]:
    if isinstance(t, str):
        return list(t)
    out: List[Tok] = []
    for a in t.atoms:
        if isinstance(a, Lit):
            out.extend(list(a))
        else:
            out.append(a)
    return out


class _Parser:
    def __init__(self, toks: List[Tok], what: str) -> None:
        self.t, self.i, self.what = toks, 0, what
        self.ngroups = 0

    def err(self, msg: str) -> RegexSyntaxError:
        ctx = "".join(x if isinstance(x, str) else repr(x) for x in self.t)
        return RegexSyntaxError(f"regex syntax: {msg} at token {self.i} in {ctx!r}")

    def peek(self, k: int = 0) -> Optional[Tok]:
        j = self.i + k
        return self.t[j] if j < len(self.t) else None

    def eat(self) -> Tok:
        x = self.t[self.i]
        self.i += 1
        return x

    def parse(self) -> Node:
        n = self.alt()
        if self.i != len(self.t):
            raise self.err("unbalanced parenthesis")
        return n

    def alt(self) -> Node:
        branches = [self.seq()]
        while self.peek() == "|":
            self.eat()
            branches.append(self.seq())
        return branches[0] if len(branches) == 1 else Alt(branches)

    def seq(self) -> Node:
        items: List[Node] = []
        while self.peek() is not None and self.peek() not in ("|", ")"):
            a = self.atom()
            a = self.quant(a)
            items.append(a)
        return items[0] if len(items) == 1 else Seq(items)

    def quant(self, a: Node) -> Node:
        while True:
            p = self.peek()
            if p == "?":
                self.eat()
                a = Rep(a, 0, 1)
            elif p == "*":
                self.eat()
                a = Rep(a, 0, None)
            elif p == "+":
                self.eat()
                a = Rep(a, 1, None)
            elif p == "{":
                q = self.brace()
                if q is None:
                    return a
                a = Rep(a, q[0], q[1])
            elif isinstance(p, Hole) and p.kind == "times":
                self.eat()
                a = Rep(a, None, None, whole=p)
            else:
                return a
            if self.peek() == "?" and isinstance(a, Rep) and a.whole is None:
                # lazy modifier
                self.eat()
                a.lazy = True

    def brace(self) -> Optional[Tuple[Any, Any]]:
        """try to read {m}, {m,}, {m,n}, {,n} (ints or holes); None (and nothing consumed) if it is a literal '{'"""
        j = self.i + 1

        def num(j: int) -> Tuple[Any, int]:
            if j < len(self.t) and isinstance(self.t[j], Hole):
                return self.t[j], j + 1
            s = ""
            while j < len(self.t) and isinstance(self.t[j], str) and self.t[j].isdigit():  # type: ignore[union-attr]
                s += self.t[j]  # type: ignore[operator]
                j += 1
            return (int(s) if s else None), j
        lo, j = num(j)
        if j < len(self.t) and self.t[j] == "}":
            if lo is None:
                return None
            self.i = j + 1
            return (lo, lo)
        if j < len(self.t) and self.t[j] == ",":
            hi, j = num(j + 1)
            if j < len(self.t) and self.t[j] == "}":
                if lo is None and hi is None:
                    return None
                self.i = j + 1
                return (0 if lo is None else lo, hi)
        return None

    def atom(self) -> Node:
        x = self.eat()
        if isinstance(x, Hole):
            return HoleN(x)
        if isinstance(x, Join):
            sep = parse(x.sep, "join separator") if x.sep else Seq([])
            return JoinN(sep, parse(x.elem, "join element"), x.src, dict(x.flags), x.sep)
        if x == "(":
            return self.group()
        if x == "[":
            return self.cls()
        if x == ".":
            return AnyChar()
        if x in ("^", "$"):
            return Anchor(x)
        if x == "\\":
            return self.escape(in_class=False)
        if x in ("*", "+", "?"):
            raise self.err(f"nothing to repeat ({x})")
        return Char(x)

    def group(self) -> Node:
        kind = "cap"
        name = None
        if self.peek() == "?":
            self.eat()
            c = self.eat()
            if c == ":":
                kind = "nc"
            elif c == "=":
                kind = "la"
            elif c == "!":
                kind = "nla"
            elif c == ">":
                kind = "atomic"
            elif c == "<":
                d = self.eat()
                if d == "=":
                    kind = "lb"
                elif d == "!":
                    kind = "nlb"
                else:
                    name = d if isinstance(d, str) else "?"
                    while self.peek() != ">":
                        name += str(self.eat())
                    self.eat()
            elif c == "P" and self.peek() == "<":
                self.eat()
                name = ""
                while self.peek() != ">":
                    name += str(self.eat())
                self.eat()
            else:
                raise self.err(f"unsupported group syntax (?{c}")
        idx = 0
        if kind == "cap":
            self.ngroups += 1
            idx = self.ngroups
        body = self.alt()
        if self.peek() != ")":
            raise self.err("missing )")
        self.eat()
        return Group(kind, body, idx, name)

    def escape(self, in_class: bool) -> Node:
        if self.peek() is None:
            raise self.err("trailing backslash")
        x = self.eat()
        if isinstance(x, Hole):
            if in_class:
                raise self.err("hole inside a character class")
            return BackRef(x)
        if isinstance(x, Join):
            raise self.err("join after backslash")
        if x in "dDwWsS":
            return Cls(False, cats={x})
        if x.isdigit() and not in_class:
            s = x
            while isinstance(self.peek(), str) and self.peek().isdigit():  # type: ignore[union-attr]
                s += self.eat()  # type: ignore[operator]
            return BackRef(int(s))
        if x in "bBAZ" and not in_class:
            return Anchor("\\" + x)
        table = {"t": "\t", "n": "\n", "r": "\r", "f": "\f", "v": "\v", "0": "\0"}
        if x in table:
            return Char(table[x])
        if x == "x":
            h = str(self.eat()) + str(self.eat())
            return Char(chr(int(h, 16)))
        return Char(x)

    def cls(self) -> Node:
        c = Cls(False)
        if self.peek() == "^":
            self.eat()
            c.negated = True
        first = True
        while True:
            if self.peek() is None:
                raise self.err("unterminated character class")
            x = self.eat()
            if not isinstance(x, str):
                raise self.err("hole inside a character class")
            if x == "]" and not first:
                break
            first = False
            lo: Optional[str]
            if x == "\\":
                e = self.escape(in_class=True)
                if isinstance(e, Cls):
                    c.cats |= e.cats
                    continue
                assert isinstance(e, Char)
                lo = e.c
            else:
                lo = x
            if self.peek() == "-" and self.peek(1) not in ("]", None):
                self.eat()
                y = self.eat()
                if y == "\\":
                    e = self.escape(in_class=True)
                    if not isinstance(e, Char):
                        raise self.err("bad range")
                    y = e.c
                if not isinstance(y, str):
                    raise self.err("hole inside a character class")
                c.ranges.append((lo, y))
            else:
                c.chars.add(lo)
        return c


def parse(t: Union[Str, str], what: str = "regex") -> Node:
    return _Parser(tokens_of(t), what).parse()


# ------------------------------------------------------------------ utilities
def walk(n: Node) -> Iterator[Node]:
    yield n
    for c in n.children():
        yield from walk(c)


LOOK = ("la", "nla", "lb", "nlb")


def consuming_leaves(n: Node, include_look: bool = False) -> Iterator[Node]:
    """Char / Cls / AnyChar / HoleN / BackRef leaves that consume input (look-arounds skipped)."""
    if isinstance(n, (Char, Cls, AnyChar, HoleN, BackRef)):
        yield n
        return
    if isinstance(n, Group) and n.kind in LOOK and not include_look:
        return
    if isinstance(n, JoinN):
        yield from consuming_leaves(n.sep, include_look)
        yield from consuming_leaves(n.elem, include_look)
        return
    for c in n.children():
        yield from consuming_leaves(c, include_look)


def default_hole_nullable(h: Hole) -> bool:
    return h.kind not in ("name", "child_instr", "child_operand", "index")


def nullable(n: Node, hole_nullable: Callable[[Hole], bool] = default_hole_nullable) -> bool:
    if isinstance(n, (Char, Cls, AnyChar)):
        return False
    if isinstance(n, BackRef):
        return False
    if isinstance(n, Anchor):
        return True
    if isinstance(n, HoleN):
        return hole_nullable(n.hole)
    if isinstance(n, Group):
        return True if n.kind in LOOK else nullable(n.body, hole_nullable)
    if isinstance(n, Rep):
        if n.whole is not None:
            return True  # unknown quantifier may be {0,..}
        if isinstance(n.lo, Hole) or n.lo == 0:
            return True
        return nullable(n.body, hole_nullable)
    if isinstance(n, Seq):
        return all(nullable(x, hole_nullable) for x in n.items)
    if isinstance(n, Alt):
        return any(nullable(x, hole_nullable) for x in n.branches)
    if isinstance(n, JoinN):
        return True  # zero elements unless the source is known non-empty; conservative
    raise AnalysisError(f"nullable: {n!r}")


def first_leaves(n: Node, hole_nullable: Callable[[Hole], bool] = default_hole_nullable) -> List[Node]:
    """possible first consuming leaves"""
    if isinstance(n, (Char, Cls, AnyChar, HoleN, BackRef)):
        return [n]
    if isinstance(n, Anchor):
        return []
    if isinstance(n, Group):
        return [] if n.kind in LOOK else first_leaves(n.body, hole_nullable)
    if isinstance(n, Rep):
        return first_leaves(n.body, hole_nullable)
    if isinstance(n, Alt):
        out: List[Node] = []
        for b in n.branches:
            out.extend(first_leaves(b, hole_nullable))
        return out
    if isinstance(n, Seq):
        out = []
        for x in n.items:
            out.extend(first_leaves(x, hole_nullable))
            if not nullable(x, hole_nullable):
                break
        return out
    if isinstance(n, JoinN):
        return first_leaves(n.elem, hole_nullable)
    raise AnalysisError(f"first_leaves: {n!r}")


def last_leaves(n: Node, hole_nullable: Callable[[Hole], bool] = default_hole_nullable) -> List[Node]:
    if isinstance(n, (Char, Cls, AnyChar, HoleN, BackRef)):
        return [n]
    if isinstance(n, Anchor):
        return []
    if isinstance(n, Group):
        return [] if n.kind in LOOK else last_leaves(n.body, hole_nullable)
    if isinstance(n, Rep):
        return last_leaves(n.body, hole_nullable)
    if isinstance(n, Alt):
        out: List[Node] = []
        for b in n.branches:
            out.extend(last_leaves(b, hole_nullable))
        return out
    if isinstance(n, Seq):
        out = []
        for x in reversed(n.items):
            out.extend(last_leaves(x, hole_nullable))
            if not nullable(x, hole_nullable):
                break
        return out
    if isinstance(n, JoinN):
        return last_leaves(n.elem, hole_nullable)
    raise AnalysisError(f"last_leaves: {n!r}")


def can_match_char(leaf: Node, c: str) -> Optional[bool]:
    """can this consuming leaf consume character c?  None = unknown (hole)"""
    if isinstance(leaf, Char):
        return leaf.c == c
    if isinstance(leaf, Cls):
        return leaf.matches(c)
    if isinstance(leaf, AnyChar):
        return c != "\n"
    return None


def excludes(leaf: Node, chars: str) -> bool:
    return all(can_match_char(leaf, c) is False for c in chars)


INF = float("inf")


def count_char(n: Node, c: str, hole_count: Callable[[Hole], Tuple[float, float]],
               join_count: Tuple[float, float] = (0, INF)) -> Tuple[float, float]:
    """(min, max) number of literal `c` consumed on a path through n.  A class/dot that can
    match c counts as (0, its repetition) - callers check separator discipline separately."""
    if isinstance(n, Char):
        return (1, 1) if n.c == c else (0, 0)
    if isinstance(n, (Cls, AnyChar)):
        return (0, 1) if can_match_char(n, c) else (0, 0)
    if isinstance(n, (Anchor, BackRef)):
        return (0, 0)
    if isinstance(n, HoleN):
        return hole_count(n.hole)
    if isinstance(n, Group):
        return (0, 0) if n.kind in LOOK else count_char(n.body, c, hole_count, join_count)
    if isinstance(n, Rep):
        lo, hi = count_char(n.body, c, hole_count, join_count)
        rlo = 0 if (n.whole is not None or isinstance(n.lo, Hole)) else n.lo
        rhi = INF if (n.whole is not None or isinstance(n.hi, Hole) or n.hi is None) else n.hi
        return (lo * rlo, (hi * rhi) if hi else 0)
    if isinstance(n, Seq):
        lo = hi = 0.0
        for x in n.items:
            a, b = count_char(x, c, hole_count, join_count)
            lo, hi = lo + a, hi + b
        return (lo, hi)
    if isinstance(n, Alt):
        rs = [count_char(b, c, hole_count, join_count) for b in n.branches]
        return (min(r[0] for r in rs), max(r[1] for r in rs))
    if isinstance(n, JoinN):
        a, b = count_char(n.elem, c, hole_count, join_count)
        s0, s1 = count_char(n.sep, c, hole_count, join_count)
        k0, k1 = join_count
        return (a * k0 + s0 * max(k0 - 1, 0), (b * k1 if b else 0) + (s1 * k1 if s1 else 0))
    raise AnalysisError(f"count_char: {n!r}")


def strip_groups(n: Node) -> Node:
    """remove redundant non-capturing groups (unquantified ones, and those around a single atom/sequence
    where grouping does not change the language) - for structural comparison modulo grouping"""
    if isinstance(n, Group):
        b = strip_groups(n.body)
        if n.kind == "nc":
            return b
        return Group(n.kind, b, n.index, n.name)
    if isinstance(n, Rep):
        body = n.body
        inner = strip_groups(body)
        # keep one group around the quantified body when it is not a single atom
        if isinstance(inner, (Seq, Alt, JoinN)):
            inner = Group("nc", inner)
        return Rep(inner, n.lo, n.hi, n.lazy, n.whole)
    if isinstance(n, Seq):
        items: List[Node] = []
        for x in n.items:
            s = strip_groups(x)
            if isinstance(x, Group) and x.kind == "nc" and isinstance(s, Alt):
                s = Group("nc", s)
            if isinstance(s, Seq):
                items.extend(s.items)
            else:
                items.append(s)
        return Seq(items) if len(items) != 1 else items[0]
    if isinstance(n, Alt):
        return Alt([strip_groups(b) for b in n.branches])
    if isinstance(n, JoinN):
        e = strip_groups(n.elem)
        if isinstance(n.elem, Group) and n.elem.kind == "nc" and isinstance(e, Alt):
            e = Group("nc", e)
        return JoinN(n.sep, e, n.src, n.flags, n.sep_text)
    return n


def same(a: Node, b: Node) -> bool:
    return repr(a) == repr(b)


def groups(n: Node, kind: str) -> List[Group]:
    return [g for g in walk(n) if isinstance(g, Group) and g.kind == kind]


def backrefs(n: Node) -> List[BackRef]:
    return [g for g in walk(n) if isinstance(g, BackRef)]


def is_hex_class_superset(leaf: Node) -> bool:
    return isinstance(leaf, Cls) and all(leaf.matches(c) for c in "0123456789abcdef")


def seq_items(n: Node) -> List[Node]:
    return list(n.items) if isinstance(n, Seq) else [n]


def unwrap(n: Node) -> Node:
    """peel redundant non-capturing groups around a node"""
    while isinstance(n, Group) and n.kind == "nc":
        n = n.body
    return n
