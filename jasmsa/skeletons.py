"""skeletons -- families of pattern skeletons (typed YAML shapes with abstract names) and the
expectations that go with them (role, operator, times of every node)."""
from __future__ import annotations

import itertools
from typing import Any, Dict, Iterator, List, Optional, Tuple

from .models import Sym

OPS = ("$and", "$or", "$and_any_order")
REG_FAMILIES = ("&genreg", "&indreg", "&stackreg", "&basereg")
REG_SUFFIXES = ("", ".64", ".32", ".16", ".8H", ".8L")


class E:
    """expected node: name (Sym | str | int), kids (list[E]) or deref fields (dict), times (lo, hi)"""
    _n = 0

    def __init__(self, name: Any, kids: Optional[List["E"]] = None, times: Any = None,
                 fields: Optional[Dict[str, Any]] = None) -> None:
        self.name, self.kids, self.times, self.fields = name, kids, times, fields

    def expected_times(self) -> Tuple[int, int]:
        t = self.times
        if t is None:
            return (1, 1)
        if isinstance(t, int):
            return (t, t)
        return (t.get("min", 1), t.get("max", 1))

    def yaml(self) -> Any:
        if self.fields is not None:           # $deref
            body = {}
            for k, v in self.fields.items():
                if isinstance(v, E):
                    body[k] = v.name if v.is_leaf() else [v.yaml()]
                else:
                    body[k] = v
            d = {self.name: body}
            if self.times is not None:
                d["times"] = self.times
            return d
        if self.kids is None:
            if self.times is None:
                return self.name
            return {self.name: {"times": self.times}}
        d = {self.name: [k.yaml() for k in self.kids]}
        if self.times is not None:
            d["times"] = self.times
        return d

    def is_leaf(self) -> bool:
        return self.kids is None and self.fields is None and self.times is None

    def expected_children(self) -> List["E"]:
        """children as they must appear in the typed tree (times markers excluded)"""
        if self.fields is not None:
            out = []
            for k, v in self.fields.items():
                out.append(E(k, [v if isinstance(v, E) else E(v)]))
            return out
        return list(self.kids or [])

    def label(self) -> str:
        if self.fields is not None:
            inner = ",".join(f"{k}:{(v.label() if isinstance(v, E) else v)}" for k, v in self.fields.items())
            s = f"$deref{{{inner}}}"
        elif self.kids is None:
            s = f"{self.name}"
        else:
            s = f"{self.name}[{','.join(k.label() for k in self.kids)}]"
        if self.times is not None:
            s += f"*{self.times}"
        return s


class Namer:
    def __init__(self) -> None:
        self.n = 0

    def m(self) -> Sym:
        self.n += 1
        return Sym(f"M{self.n}")

    def o(self) -> Sym:
        self.n += 1
        return Sym(f"O{self.n}")

    def d(self) -> Sym:
        self.n += 1
        return Sym(f"D{self.n}")


class Skeleton:
    def __init__(self, label: str, items: List[E], tags: Tuple[str, ...] = ()) -> None:
        self.label, self.items, self.tags = label, items, tags

    def yaml(self) -> List[Any]:
        return [i.yaml() for i in self.items]

    def root(self) -> E:
        return E("$and", self.items)


TIMES_VARIANTS: List[Any] = [2, {"min": 0, "max": 3}, {"min": 2, "max": 2}, 0]


def instr_leaves(nm: Namer) -> List[E]:
    return [
        E(nm.m()),
        E(nm.m(), [E(nm.o())]),
        E(nm.m(), [E(nm.o()), E(nm.o())]),
    ]


def quick_family() -> List[Skeleton]:
    out: List[Skeleton] = []
    nm = Namer()

    def add(label: str, items: List[E], *tags: str) -> None:
        out.append(Skeleton(label, items, tags))

    # --- plain sequences (C01)
    add("one mnemonic", [E(nm.m())], "seq")
    add("mnemonic + 1 operand", [E(nm.m(), [E(nm.o())])], "seq")
    add("three items", [E(nm.m(), [E(nm.o()), E(nm.o()), E(nm.o())]), E(nm.m()), E(nm.m(), [E(nm.o())])], "seq")
    add("int operand", [E(nm.m(), [E(0), E(nm.o()), E(1)])], "seq")
    add("hex-h operand", [E(nm.m(), [E("10h"), E(nm.o())])], "seq", "hex")
    for reg in ("ah", "bh", "ch", "dh", "AH", "bl", "eh"):
        add(f"operand named {reg} (a register / name that ends in h)", [E(nm.m(), [E(reg), E(nm.o())])], "seq", "hex")
    add("high-byte register operand", [E(nm.m(), [E("ah"), E("%bh")])], "seq")
    # --- times on leaves, both spellings (C02)
    for t in TIMES_VARIANTS:
        add(f"leaf times inside {t}", [E(nm.m(), None, t), E(nm.m())], "times")
        add(f"leaf+operands times sibling {t}", [E(nm.m(), [E(nm.o())], t)], "times")
    # --- operators at instruction level (C03/C02/C04)
    for op in OPS:
        add(f"{op} of leaves", [E(nm.m()), E(op, [E(nm.m()), E(nm.m(), [E(nm.o())])]), E(nm.m())], "ops")
        add(f"{op} of 3", [E(op, [E(nm.m()), E(nm.m()), E(nm.m())])], "ops")
        add(f"{op} single child", [E(op, [E(nm.m())])], "ops")
        for t in TIMES_VARIANTS[:2]:
            add(f"{op} times {t}", [E(op, [E(nm.m()), E(nm.m())], t)], "ops", "times")
        for op2 in OPS:
            add(f"{op} over {op2}", [E(op, [E(op2, [E(nm.m()), E(nm.m())]), E(nm.m())])], "ops", "nest")
        add(f"{op} over $not", [E(op, [E("$not", [E(nm.m())]), E(nm.m())])], "ops", "nest", "not")
        add(f"{op} with leaf times inside", [E(op, [E(nm.m(), None, 2), E(nm.m())])], "ops", "times")
        add(f"{op} of one repeated child, itself repeated", [E(nm.m()), E(op, [E(nm.m(), None, 2)], {"min": 1, "max": 2}), E(nm.m())],
            "ops", "times")
        add(f"optional {op} of one repeated group", [E(op, [E("$or", [E(nm.m()), E(nm.m())], 2)], {"min": 0, "max": 1}), E(nm.m())],
            "ops", "times", "nest")
    # --- $not at instruction level (C04)
    add("leading $not", [E("$not", [E(nm.m())]), E(nm.m())], "not")
    add("inner $not", [E(nm.m()), E("$not", [E(nm.m(), [E(nm.o())])]), E(nm.m())], "not")
    add("trailing $not", [E(nm.m()), E("$not", [E(nm.m())])], "not")
    add("$not of group", [E("$not", [E("$and", [E(nm.m()), E(nm.m())])]), E(nm.m())], "not")
    add("$not of $or", [E(nm.m()), E("$not", [E("$or", [E(nm.m()), E(nm.m())])])], "not")
    for t in TIMES_VARIANTS[:2]:
        add(f"$not times {t}", [E(nm.m()), E("$not", [E(nm.m())], t), E(nm.m())], "not", "times")
    add("$not times 0 (consumes nothing)", [E(nm.m()), E("$not", [E(nm.m())], 0), E(nm.m())], "not", "times")
    add("operand $not times 0", [E(nm.m(), [E("$not", [E(nm.o())], 0), E(nm.o())])], "opnd", "not", "times")
    add("$not $not", [E("$not", [E("$not", [E(nm.m())])])], "not")
    add("$not $not of a repeated instruction", [E("$not", [E("$not", [E(nm.m(), None, 2)])]), E(nm.m())], "not", "times")
    add("$not $not of a two-instruction group", [E("$not", [E("$not", [E("$and", [E(nm.m()), E(nm.m())])])]), E(nm.m())], "not", "nest")
    add("$not of a repeated instruction, itself repeated", [E("$not", [E(nm.m(), None, 2)], {"min": 1, "max": 2}), E(nm.m())], "not", "times")
    for big in (1200, {"min": 0, "max": 1500}, {"min": 1100, "max": 1500}):
        add(f"large repetition bound {big}", [E(nm.m(), None, big), E("$or", [E(nm.m()), E(nm.m())], big)], "times", "ops")
    # --- operand level operators
    for op in OPS:
        add(f"operand {op}", [E(nm.m(), [E(op, [E(nm.o()), E(nm.o())]), E(nm.o())])], "opnd", "ops")
        add(f"operand {op} times", [E(nm.m(), [E(op, [E(nm.o()), E(nm.o())], 2)])], "opnd", "ops", "times")
        add(f"operand {op} nested", [E(nm.m(), [E(op, [E("$or", [E(nm.o()), E(nm.o())]), E(nm.o())])])], "opnd",
            "ops", "nest")
    for op in OPS:
        add(f"operand {op} with the integer 0 as a child", [E(nm.m(), [E(op, [E(0), E(nm.o())]), E(nm.o())])], "opnd", "ops", "hex")
    add("operand $or of two integers, 0 last", [E(nm.m(), [E(nm.o()), E("$or", [E(8), E(0)])])], "opnd", "ops", "hex")
    add("$deref field $or with the integer 0", [E(nm.m(), [E("$deref", fields={
        "main_reg": E(nm.d()), "constant_offset": E("$or", [E(0), E(8)])})])], "deref", "ops")
    add("operand $not", [E(nm.m(), [E("$not", [E(nm.o())]), E(nm.o())])], "opnd", "not")
    add("operand $not of $or", [E(nm.m(), [E("$not", [E("$or", [E(nm.o()), E(nm.o())])]), E(nm.o())])], "opnd", "not")
    add("operand $not last", [E(nm.m(), [E(nm.o()), E("$not", [E(nm.o())])]), E(nm.m())], "opnd", "not")
    add("operand $not times", [E(nm.m(), [E("$not", [E(nm.o())], 2)])], "opnd", "not", "times")
    add("operand $not in $or", [E(nm.m(), [E("$or", [E("$not", [E(nm.o())]), E(nm.o())])])], "opnd", "not")
    add("operand $not of $deref", [E(nm.m(), [E("$not", [E("$deref", fields={"main_reg": E(nm.d())})]), E(nm.o())])], "opnd", "not", "deref")
    add("operand $not of $or whose first alternative is a $deref", [E(nm.m(), [E("$not", [E("$or", [
        E("$deref", fields={"main_reg": E(nm.d()), "constant_offset": E(nm.d())}), E(nm.o())])]), E(nm.o())])], "opnd", "not", "deref")
    add("operand $not of a register capture seen before", [E(nm.m(), [E("&genreg.64"), E(nm.o())]),
                                                          E(nm.m(), [E("$not", [E("&genreg.64")]), E(nm.o())])], "opnd", "not", "regcap")
    add("instruction $not of an instruction capture seen before", [E("&i"), E("$not", [E("&i")]), E(nm.m())], "not", "cap")
    # --- $deref presence patterns (C06)
    for b, c, k in itertools.product([False, True], repeat=3):
        f: Dict[str, Any] = {"main_reg": E(nm.d())}
        if k:
            f["constant_offset"] = E(nm.d())
        if b:
            f["register_multiplier"] = E(nm.d())
        if c:
            f["constant_multiplier"] = E(nm.d())
        add(f"$deref b={b} c={c} k={k}", [E(nm.m(), [E("$deref", fields=f), E(nm.o())])], "deref")
    add("$deref field order k first", [E(nm.m(), [E("$deref", fields={"constant_offset": E(nm.d()),
                                                                      "main_reg": E(nm.d())})])], "deref")
    add("$deref with $or field", [E(nm.m(), [E("$deref", fields={"main_reg": E("$or", [E(nm.d()), E(nm.d())]),
                                                                 "constant_offset": E(nm.d())})])], "deref", "ops")
    add("$deref times", [E(nm.m(), [E("$deref", fields={"main_reg": E(nm.d())}, times=2)])], "deref", "times")
    add("$deref under operand $or", [E(nm.m(), [E("$or", [E("$deref", fields={"main_reg": E(nm.d())}),
                                                        E(nm.o())])])], "deref", "ops")
    add("$deref int fields", [E(nm.m(), [E("$deref", fields={"main_reg": E(nm.d()), "constant_offset": E(8),
                                                             "register_multiplier": E(nm.d()),
                                                             "constant_multiplier": E(4)})])], "deref")
    add("$deref zero offset and unit scale written as ints", [E(nm.m(), [E("$deref", fields={
        "main_reg": E(nm.d()), "constant_offset": E(0), "register_multiplier": E(nm.d()), "constant_multiplier": E(1)})])], "deref")
    add("$deref zero offset only", [E(nm.m(), [E("$deref", fields={"main_reg": E(nm.d()), "constant_offset": E(0)}), E(0)])], "deref")
    # --- capture groups (C05)
    add("instr capture twice", [E("&i"), E(nm.m()), E("&i")], "cap")
    add("instr capture whose name begins like a register family", [E("&genreg-first"), E(nm.m()), E("&genreg-first"),
                                                                  E("&stackreg-adjust")], "cap")
    add("operand capture twice", [E(nm.m(), [E("&x"), E(nm.o())]), E(nm.m(), [E(nm.o()), E("&x")])], "cap")
    add("two names interleaved", [E(nm.m(), [E("&x"), E("&y")]), E(nm.m(), [E("&y"), E("&x")]), E("&i"),
                                  E(nm.m(), [E("&x")]), E("&i")], "cap")
    add("later occurrence under operand $or", [E(nm.m(), [E("&x")]),
                                               E(nm.m(), [E("$or", [E("&x"), E(nm.o())])])], "cap", "ops")
    add("later occurrence under operand $not/any_order", [
        E(nm.m(), [E("&x"), E("&y")]),
        E(nm.m(), [E("$not", [E("&x")]), E("$and_any_order", [E("&y"), E(nm.o())])])], "cap", "ops", "not")
    add("later instr occurrence under $or/$not", [E("&i"), E("$or", [E("&i"), E(nm.m())]),
                                                  E("$not", [E("&i")])], "cap", "ops", "not")
    add("capture in deref field then operand", [
        E(nm.m(), [E("$deref", fields={"main_reg": E("&r"), "constant_offset": E("&k")})]),
        E(nm.m(), [E("&r"), E("&k")])], "cap", "deref")
    add("capture in deref, offset written first", [
        E(nm.m(), [E("$deref", fields={"constant_offset": E("&k"), "main_reg": E("&r")})]),
        E(nm.m(), [E("&r"), E("&k")])], "cap", "deref")
    for order in (("main_reg", "register_multiplier", "constant_multiplier", "constant_offset"),
                  ("constant_offset", "constant_multiplier", "register_multiplier", "main_reg"),
                  ("constant_offset", "register_multiplier", "main_reg", "constant_multiplier")):
        caps = {"main_reg": "&a", "register_multiplier": "&b", "constant_multiplier": "&c", "constant_offset": "&k"}
        add(f"four captures defined in one deref, written {'/'.join(o[:4] for o in order)}", [
            E(nm.m(), [E("$deref", fields={f: E(caps[f]) for f in order})]),
            E(nm.m(), [E("&k"), E("&b")]), E(nm.m(), [E("&c"), E("&a")])], "cap", "deref")
    add("offset and index captured, base plain", [
        E(nm.m(), [E("$deref", fields={"main_reg": E(nm.d()), "constant_offset": E("&off"), "register_multiplier": E("&idx"),
                                       "constant_multiplier": E(nm.d())})]),
        E(nm.m(), [E("&off")]), E(nm.m(), [E("&idx")])], "cap", "deref")
    for num in (7, 16, 255, 4096):
        add(f"integer operand {num} before a capture definition and its later use", [
            E(nm.m(), [E(num), E("&x")]), E(nm.m(), [E("&x"), E(num)]), E("&i"), E(nm.m(), [E("&genreg.64")]),
            E(nm.m(), [E(num), E("&genreg.32")]), E("&i")], "cap", "regcap", "hex")
    add("capture bound as operand, used in deref", [
        E(nm.m(), [E("&r")]),
        E(nm.m(), [E("$deref", fields={"main_reg": E("&r"), "constant_offset": E(nm.d())})])], "cap", "deref")
    for fam in REG_FAMILIES:
        for s1 in REG_SUFFIXES:
            if fam != "&genreg" and s1 == ".8H":
                continue
            s2 = ".32" if s1 != ".32" else ".64"
            add(f"{fam}{s1} then {s2} and in deref", [
                E(nm.m(), [E(fam + s1), E(nm.o())]),
                E(nm.m(), [E(fam + s2)]),
                E(nm.m(), [E("$deref", fields={"main_reg": E(fam + ".64"), "constant_offset": E(nm.d())})])],
                "cap", "regcap")
    for fam in ("&genreg", "&indreg"):
        add(f"{fam} with a dotted label before the width suffix", [
            E(nm.m(), [E(fam + ".acc.64"), E(nm.o())]), E(nm.m(), [E(fam + ".acc.32")]),
            E(nm.m(), [E(fam + ".tmp.16"), E(fam + ".acc.16")]), E(nm.m(), [E(fam + ".tmp.32")])], "cap", "regcap")
    add("register capture first inside deref", [
        E(nm.m(), [E("$deref", fields={"main_reg": E("&genreg.64"), "register_multiplier": E("&indreg.64"),
                                       "constant_multiplier": E(nm.d())})]),
        E(nm.m(), [E("&genreg.32"), E("&indreg.16")])], "cap", "regcap", "deref")
    add("two register families and a plain capture", [
        E(nm.m(), [E("&genreg"), E("&x"), E("&stackreg.64")]),
        E(nm.m(), [E("&x"), E("&stackreg.32"), E("&genreg.8L")]),
        E(nm.m(), [E("&basereg"), E("&basereg.16")])], "cap", "regcap")
    return out


def thorough_family() -> List[Skeleton]:
    """systematic closure: every operator over every pair of depth-1 items, in each context (depth 3), every `times`
    variant on every operator, every deref presence pattern x field kind, every register family x (first, later)
    suffix pair, later capture occurrences in every operator position"""
    out = quick_family()
    nm = Namer()
    nm.n = 10000
    ALLOPS = OPS + ("$not",)

    def instr_pool() -> List[E]:
        pool = [E(nm.m()), E(nm.m(), [E(nm.o())]), E(nm.m(), [E(nm.o()), E(nm.o())]), E(nm.m(), None, 2),
                E(nm.m(), [E(nm.o())], {"min": 0, "max": 2})]
        for op in OPS:
            pool.append(E(op, [E(nm.m()), E(nm.m(), [E(nm.o())])]))
            pool.append(E(op, [E(nm.m()), E(nm.m())], {"min": 1, "max": 3}))
        pool.append(E("$not", [E(nm.m())]))
        pool.append(E("$not", [E(nm.m(), [E(nm.o())])], 2))
        return pool

    def op_pool() -> List[E]:
        pool = [E(nm.o()), E(3), E("$deref", fields={"main_reg": E(nm.d()), "constant_offset": E(nm.d())}),
                E("$deref", fields={"main_reg": E(nm.d()), "register_multiplier": E(nm.d()), "constant_multiplier": E(4)})]
        for op in OPS:
            pool.append(E(op, [E(nm.o()), E(nm.o())]))
            pool.append(E(op, [E(nm.o()), E(nm.o())], 2))
        pool.append(E("$not", [E(nm.o())]))
        return pool

    ipool, opool = instr_pool(), op_pool()
    k = 0
    for op in ALLOPS:
        for a in ipool:
            kids_list = [[a]] if op == "$not" else [[a, b] for b in ipool]
            for kids in kids_list:
                for t in (None, 2, {"min": 0, "max": 3}):
                    if t is not None and k % 3:
                        k += 1
                        continue
                    k += 1
                    out.append(Skeleton(f"closure instr {op}{'*' + str(t) if t else ''} [{','.join(x.label() for x in kids)}]"[:150],
                                        [E(nm.m()), E(op, kids, t), E(nm.m())], ("closure", "ops", "times" if t else "ops",
                                                                                   "not" if op == "$not" or any("$not" in x.label() for x in kids) else "ops")))
    for op in ALLOPS:
        for a in opool:
            kids_list = [[a]] if op == "$not" else [[a, b] for b in opool]
            for kids in kids_list:
                for t in (None, 2):
                    if t is not None and k % 2:
                        k += 1
                        continue
                    k += 1
                    out.append(Skeleton(f"closure operand {op}{'*' + str(t) if t else ''} [{','.join(x.label() for x in kids)}]"[:150],
                                        [E(nm.m(), [E(nm.o()), E(op, kids, t), E(nm.o())])],
                                        ("closure", "opnd", "ops", "times" if t else "ops", "deref" if any("$deref" in x.label() for x in kids) else "ops",
                                         "not" if op == "$not" or any("$not" in x.label() for x in kids) else "ops")))
    # deref: presence pattern x field kind
    kinds = {"plain": lambda: E(nm.d()), "int": lambda: E(8), "or": lambda: E("$or", [E(nm.d()), E(nm.d())]),
             "later-capture": lambda: E("&z"), "later-register": lambda: E("&genreg.64")}
    for b, c, kk in itertools.product([False, True], repeat=3):
        for kind, mk in kinds.items():
            f: Dict[str, Any] = {"main_reg": mk() if kind != "int" else E(nm.d())}
            if kk:
                f["constant_offset"] = mk()
            if b:
                f["register_multiplier"] = mk() if kind != "int" else E(nm.d())
            if c:
                f["constant_multiplier"] = mk()
            pre = [E(nm.m(), [E("&z"), E("&genreg")])] if kind.startswith("later") else []
            out.append(Skeleton(f"closure deref b={b} c={c} k={kk} fields={kind}", pre + [E(nm.m(), [E("$deref", fields=f), E(nm.o())])],
                                ("closure", "deref", "cap" if pre else "deref")))
    # register families: every (first, later) suffix pair
    for fam in REG_FAMILIES:
        sufs = [x for x in REG_SUFFIXES if not (fam != "&genreg" and x == ".8H")]
        for s1 in sufs:
            for s2 in sufs:
                if not s2:
                    continue
                out.append(Skeleton(f"closure {fam}{s1} then {s2}", [E(nm.m(), [E(fam + s1)]), E(nm.m(), [E(nm.o()), E(fam + s2)]),
                                                                  E(nm.m(), [E("$deref", fields={"main_reg": E(fam + s2)})])],
                                    ("closure", "cap", "regcap")))
    # later occurrences of captures in every operator position
    for op in ALLOPS:
        kids_i = [E("&i")] if op == "$not" else [E("&i"), E(nm.m())]
        kids_o = [E("&x")] if op == "$not" else [E("&x"), E(nm.o())]
        for t in (None, 2):
            out.append(Skeleton(f"closure later instr capture under {op}{'*2' if t else ''}", [E("&i"), E(op, kids_i, t)], ("closure", "cap", "ops")))
            out.append(Skeleton(f"closure later operand capture under {op}{'*2' if t else ''}",
                                [E(nm.m(), [E("&x"), E("&y")]), E(nm.m(), [E(op, kids_o, t), E("&y")])], ("closure", "cap", "ops", "opnd")))
    return out
