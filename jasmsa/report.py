"""report -- rule instances, findings, known-findings file, evidence, exit codes."""
from __future__ import annotations

import json
import os
import pathlib
import time
from typing import Any, Dict, List, Optional

from .facts import AnalysisError, Program

VERIF = pathlib.Path(__file__).resolve().parent.parent


class Finding:
    def __init__(self, prop: str, rule: str, construct: str, atom: str, message: str, where: str = "") -> None:
        self.prop, self.rule, self.construct, self.atom, self.message, self.where = (
            prop, rule, construct, atom, message, where)
        self.known = False

    def key(self):
        return (self.prop, self.rule, self.construct, self.atom)

    def as_dict(self) -> Dict[str, Any]:
        return {"property": self.prop, "rule": self.rule, "construct": self.construct, "atom": self.atom,
                "message": self.message, "where": self.where, "known": self.known}


class Ctx:
    """what a property module gets"""

    def __init__(self, prop: str, program: Program, tier: str, seed: int = 0) -> None:
        self.prop, self.p, self.tier, self.seed = prop, program, tier, seed
        self.instances: List[Dict[str, Any]] = []
        self.findings: List[Finding] = []
        self.notes: List[str] = []
        self.counts: Dict[str, int] = {}
        self.analysed: List[str] = []
        self.assumptions: List[str] = []
        self.explanation = ""
        self.extra: Dict[str, Any] = {}
        self._seen = set()
        # "this step could not be decided": fails the run closed (exit 2) at the end - unless a violation was established,
        # which is then what gets reported
        self.deferred: List[str] = []

    def defer(self, msg: str) -> None:
        self.deferred.append(msg)

    def ok(self, rule: str, construct: str, detail: str = "") -> None:
        self.counts[rule] = self.counts.get(rule, 0) + 1
        if len(self.instances) < 4000:
            self.instances.append({"rule": rule, "construct": construct, "detail": detail[:300], "verdict": "ok"})

    def fail(self, rule: str, construct: str, atom: str, message: str, where: str = "") -> None:
        self.counts[rule] = self.counts.get(rule, 0) + 1
        f = Finding(self.prop, rule, construct, atom, message, where)
        if f.key() in self._seen:
            return
        self._seen.add(f.key())
        self.findings.append(f)
        self.instances.append({"rule": rule, "construct": construct, "detail": (atom + " :: " + message)[:400],
                               "verdict": "FAIL"})

    def check(self, cond: bool, rule: str, construct: str, atom: str, message: str, where: str = "",
              detail: str = "") -> bool:
        if cond:
            self.ok(rule, construct, detail or message)
        else:
            self.fail(rule, construct, atom, message, where)
        return cond

    def analysed_fn(self, *names: str) -> None:
        for n in names:
            if n not in self.analysed:
                self.analysed.append(n)

    def floor(self, floors: Dict[str, int]) -> None:
        for rule, n in floors.items():
            got = self.counts.get(rule, 0)
            if got < n:
                raise AnalysisError(f"rule {rule} judged {got} instance(s), fewer than the {n} confirmed by hand "
                                    f"(the rule would pass vacuously)")


def _interpreted() -> set:
    from .absint import INTERPRETED
    return INTERPRETED


def _exists(p: Any, name: str) -> bool:
    """a listed anchor is reported only while it names something in the analysed tree"""
    if "." not in name or " " in name or "/" in name:
        return True
    cls, _, meth = name.partition(".")
    try:
        c = p.find_class(cls)
    except Exception:
        return True
    if c is None:
        return True
    return c.find_method(meth.split(".")[0]) is not None


def load_known() -> List[Dict[str, Any]]:
    f = VERIF / "known_findings.json"
    if not f.exists():
        return []
    return json.loads(f.read_text())["findings"]


def finish(ctx: Ctx, t0: float, error: Optional[str] = None) -> int:
    known = [k for k in load_known() if k.get("status") == "known" and k.get("property") == ctx.prop]
    known_keys = {(k["property"], k["rule"], k["construct"], k["atom"]): k for k in known}
    new: List[Finding] = []
    for f in ctx.findings:
        if f.key() in known_keys:
            f.known = True
            print(f"KNOWN-FINDING: property={f.prop} {f.rule} @ {f.construct}: {f.message} [{f.atom}]")
        else:
            new.append(f)
    ev_dir = VERIF / "evidence"
    ev_dir.mkdir(exist_ok=True)
    obligations = sum(ctx.counts.values())
    failed = len(ctx.findings)
    samples = ctx.instances[:60]
    if len(ctx.instances) > 60:
        samples += [i for i in ctx.instances[60:] if i["verdict"] == "FAIL"][:40]
    evidence = {
        "property_id": ctx.prop,
        "tier": ctx.tier,
        "seed": ctx.seed,
        "level": "other",
        "coverage": {
            "explanation": ctx.explanation or "static analysis of the working tree",
            "obligations": obligations,
            "discharged": obligations - failed,
            "evaluations": max(obligations, 1),
            "distinct_nontrivial": max(len({(i['rule'], i['construct'], i['detail']) for i in ctx.instances}), 2)
            if obligations >= 2 else obligations,
            "rule": "one evaluation = one rule instance (rule id, construct it judged) decided on the current source",
            "rule_instance_counts": ctx.counts,
            "analysed": [n for n in ctx.analysed if ctx.p is None or _exists(ctx.p, n)],
            "functions_interpreted": sorted(_interpreted()),
            "samples": samples or [{"note": "no instance"}],
            "exhaustive": True,
            "findings": [f.as_dict() for f in ctx.findings],
            "notes": ctx.notes[:50],
            "repo": str(ctx.p.root) if ctx.p is not None else "",
            **ctx.extra,
        },
        "assumptions": ctx.assumptions,
        "wall_s": round(time.time() - t0, 3),
        "violations": len(new),
    }
    if error:
        evidence["coverage"]["analysis_error"] = error
    (ev_dir / f"{ctx.prop}.json").write_text(json.dumps(evidence, indent=1, default=str) + "\n")
    if error:
        print(f"ANALYSIS-ERROR property={ctx.prop}: {error}")
        return 2
    print(f"{ctx.prop} [{ctx.tier}] rule instances: " + ", ".join(f"{k}={v}" for k, v in sorted(ctx.counts.items())))
    if new:
        rdir = VERIF / "replay"
        rdir.mkdir(exist_ok=True)
        rp = rdir / f"{ctx.prop}.json"
        rp.write_text(json.dumps({"property": ctx.prop, "tier": ctx.tier, "repo": str(ctx.p.root),
                                  "violations": [f.as_dict() for f in new]}, indent=1) + "\n")
        for f in new:
            print(f"  FAIL {f.rule} @ {f.construct} {f.where}: {f.message} [{f.atom}]")
        print(f"VIOLATION property={ctx.prop} replay={rp}")
        return 1
    print(f"OK property={ctx.prop} obligations={obligations} known_findings={failed}")
    return 0
