"""treegen -- systematic enumeration of positions in rule trees (for the thorough tiers of C13 / C19)."""
from __future__ import annotations

import copy
from typing import Any, Iterator, List, Tuple

from .models import Sym

S = Sym

BASES: List[Tuple[str, List[Any]]] = [
    ("sequence with operands", [{S("M1"): [S("O1"), S("O2")]}, S("M2"), {S("M3"): [S("O3")]}]),
    ("operators", [{"$or": [S("M1"), {S("M2"): [S("O1")]}]}, {"$not": [S("M3")]}, {"$and_any_order": [S("M4"), S("M5")]}]),
    ("operand operators and deref", [{S("M1"): [{"$or": [S("O1"), S("O2")]}, {"$deref": {"main_reg": S("D1"), "constant_offset": S("D2")}}]},
                                     {S("M2"): [{"$not": [S("O3")]}, S("O4")]}]),
    ("times", [{S("M1"): [S("O1")], "times": 2}, {S("M2"): {"times": {"min": 0, "max": 2}}}, {"$or": [S("M3"), S("M4")], "times": 3}]),
]


def positions(tree: Any, path: Tuple = ()) -> Iterator[Tuple[Tuple, str, Any]]:
    """(path, kind, value) for every string leaf in a list ('item'), every dict value that is a string ('value'),
    every mnemonic/operator key ('key') and every whole list element that is a dict ('subtree')"""
    if isinstance(tree, list):
        for i, x in enumerate(tree):
            if isinstance(x, (Sym, str)) and not isinstance(x, bool):
                yield path + (i,), "item", x
            elif isinstance(x, dict):
                yield path + (i,), "subtree", x
                yield from positions(x, path + (i,))
    elif isinstance(tree, dict):
        for k, v in tree.items():
            if k == "times":
                continue
            if isinstance(k, Sym):
                yield path + (("key", k),), "key", k
            if isinstance(v, (Sym,)) or (isinstance(v, str)):
                yield path + (k,), "value", v
            else:
                yield from positions(v, path + (k,))


def replace_at(tree: Any, path: Tuple, new: Any) -> Any:
    t = copy.deepcopy(tree)
    if not path:
        return new
    cur = t
    for step in path[:-1]:
        cur = cur[step]
    last = path[-1]
    if isinstance(last, tuple) and last[0] == "key":
        old = last[1]
        items = list(cur.items())
        cur.clear()
        for k, v in items:
            cur[new if k == old else k] = v
    else:
        cur[last] = new
    return t
