"""C06 -- $deref matches exactly the memory operand objdump prints as k(a,b,c)."""
from ..models import make_interp
from ..tmplcheck import family_results, report
from ._parser import table_check

FLOORS = {"C06.D4.memory-operand-of-every-line-kind": 4, "C06.Q.searched-stream-is-this-operations": 2, "C06.D1.deref-shape": 40, "C06.D.prop-passthrough": 80, "C06.D.field-verbatim": 60, "C06.D1.normaliser-rows": 30}


def run(ctx) -> None:
    ctx.explanation = (
        "Sibling cross-check of two independently written pieces against one frozen glue/slot layout "
        "([a], [a+k], [a+b*c], [a+b*c+k]; a=main_reg b=register_multiplier c=constant_multiplier k=constant_offset). "
        "Compiler side: the compile pipeline is interpreted on $deref skeletons for all 8 presence patterns (+ field "
        "order variants, fields holding $or / captures / ints, times, under operand operators); the deref regex with "
        "the fields cut out must be exactly '[' %?a ('+' %?b '*' (0x)?c)? ('+' (0x)?k)? ']' ',' - no other optional "
        "atom, no wildcard. Normaliser side: the rewrite table of OperandsParser (see C09) must produce exactly the "
        "rows [s0+s1*s2], [s0+s1*s2+outside], [inner], [inner+outside] from the pieces of the parenthesised part. "
        "NOT decided: that the guards select the right row for arbitrary text (C09's declined part).")
    ctx.assumptions += ["AT&T operand forms", "regex semantics"]
    ctx.analysed_fn("DerefObject.get_regex", "DerefObject._form_regex_with_some_elem_missing",
                    "DerefObject._get_regex_from_full_deref", "DerefObjectBuilder.build", "PatternNodeDeref.get_regex",
                    "PatternNodeDerefProperty.get_regex", "DerefHandler.handle", "OperandsParser.parse (one operand)")
    res, stats = family_results(ctx, tags=("deref",))
    ctx.extra["skeleton_stats"] = stats
    report(ctx, res, "C06", prefixes=("D1.", "D."), cats=("$deref", "prop"), compile_tags=("deref",))
    field_rules = [r for r in res if r.role == "deref-field" and r.rule.split(".")[0] in ("G4", "G5", "A1", "P2")]
    report(ctx, field_rules, "C06.D2", prefixes=("G", "A", "P"))
    table_check(ctx, "C06.D1.normaliser-rows", make_interp(ctx.p))
    # the operand the normaliser sees is one whole k(a,b,c): the splitter never cuts inside parentheses, wherever the
    # memory operand stands in the operand list (shared with C09.N3), and nothing is added to the normalised list
    from ._parser import instr_patterns, operands_from_operand_group, split_rule
    Ip = make_interp(ctx.p)
    split_rule(ctx, "C06.D1.memory-operand-reaches-normaliser-whole", Ip)
    _paths, _sites, _pats = instr_patterns(Ip, ctx)
    operands_from_operand_group(ctx, "C06.D1.operands-only-from-operand-group", Ip, _sites)
    # D3: end to end on token templates: compiled $deref regex vs the normaliser's output, all presence patterns and spellings
    from ..shapes import deref_end_to_end
    deref_end_to_end(ctx, make_interp(ctx.p), "C06.D3.compiled-deref-accepts-normalised-operand", "C06.D3.other-presence-patterns-rejected")
    # W: the canonical witness listing of every skeleton is found, first character to last (stream templates)
    from ..models import make_interp as _mkw
    from ..streamshapes import witnesses
    if ctx.tier == "thorough" or ('deref',):
        witnesses(ctx, _mkw(ctx.p), "C06.W.canonical-witness-is-found", tags=('deref',) if ctx.tier != "thorough" or "C06" != "C07" else ())
    # Q: the regex is searched in the stream of this operation's own listing (nothing carried over from an earlier operation)
    from ._matchrules import stream_per_run
    stream_per_run(ctx, "C06.Q.searched-stream-is-this-operations")
    # Q3: and the verdict / hit list returned is built from this operation's scan only
    from ._matchrules import repeated_operation
    repeated_operation(ctx, "C06.Q.verdict-of-this-operations-scan")
    # Q2: the regex searched is the one generated while the rule's own config was in force (generated in the constructor,
    # right after the rule's config was loaded; matching reuses it)
    from ._matchrules import compiled_with_own_config
    compiled_with_own_config(ctx, "C06.Q.compiled-with-own-config")
    # D4: on whole lines (token templates): every printed line kind that carries a memory operand - plain, with comment and
    # <symbol>, data16-prefixed, memory operand in the middle - hands that operand to patterns in the form the compiled
    # $deref expects
    from .. import shapes as _sh
    _sh.line_record_rule(ctx, _mkw(ctx.p), "C06.D4.memory-operand-of-every-line-kind", only_memory_operands=True)
