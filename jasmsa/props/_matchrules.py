"""rules shared by C11/C12/C14/C20 over matchflow scenarios"""
from ..matchflow import match_interp, match_scenarios
from ..values import AbsList, BoolV, ListV, Str


def reports_after(s, mark):
    return [e for e in s.path.events[mark:] if e.kind == "enter" and e.func == "MatchedObserver.regex_matched"]


def list_len(v):
    """(kind, n): concrete list length, or ('abs', 1) for a list filled in an abstract loop"""
    if isinstance(v, ListV):
        if v.absorbed is not None:
            pre = v.absorbed.flags.get("prefix_items", [])
            return ("abs", len(pre))
        return ("conc", len(v.items))
    if isinstance(v, AbsList):
        return ("abs", len(v.flags.get("prefix_items", [])))
    return ("?", -1)


def repeated_operation(ctx, rule, I=None):
    """the same MasterOfPuppets asked twice: the second answer must be built from the second scan only"""
    I = I or match_interp(ctx.p)
    sc = match_scenarios(I, file_types=("assembly",), return_modes=("bool", "matched_addrs_list"),
                         search_modes=("first_find", "all_finds"), only_addrs=(False,), configs=({},), repeat=2)
    n = 0
    for s in sc:
        if s.path.kind != "return":
            continue
        marks = s.path.run.user.get("call_marks", [])
        if len(marks) < 2:
            continue
        n += 1
        second = reports_after(s, marks[1])
        first = [e for e in reports_after(s, marks[0]) if e not in second]
        v = s.path.value
        construct = f"MasterOfPuppets.perform_matching x2 [{s.cfg['return_mode']},{s.cfg['search_mode']}]"
        if s.cfg["return_mode"] == "bool":
            ok = isinstance(v, BoolV) and v.v == (len(second) > 0)
            ctx.check(ok, rule, construct, f"second={v!r} hits(second)={len(second)} hits(first)={len(first)}",
                      "the boolean of a repeated operation reflects the repeated scan only")
        else:
            kind, ln = list_len(v)
            if s.cfg["search_mode"] == "first_find":
                ok = kind == "conc" and ln == len(second)
            else:
                # all_finds: an abstract loop report makes the list abstract; earlier concrete items would show as prefix
                ok = (kind == "conc" and ln == 0 and not second) or (kind == "abs" and ln == 0 and len(second) == 1) \
                    or (kind == "conc" and ln == len(second))
            ctx.check(ok, rule, construct, f"second-list={v!r} hits(second)={len(second)} hits(first)={len(first)}"[:200],
                      "the list of a repeated operation holds the hits of the repeated scan only")
    return n
