"""rules shared by C11/C12/C14/C20 over matchflow scenarios"""
from ..matchflow import match_interp, match_scenarios
from ..values import AbsList, BoolV, ListV, Str


def reports_after(s, mark):
    return [e for e in s.path.events[mark:] if e.kind == "enter" and e.func == "MatchedObserver.regex_matched"]


def list_len(v):
    """(kind, n): concrete list length, or ('abs', 1) for a list filled in an abstract loop"""
    if isinstance(v, ListV):
        if v.absorbed is not None:
            pre = v.absorbed.flags.get("prefix_items", [])
            return ("abs", len(pre))
        return ("conc", len(v.items))
    if isinstance(v, AbsList):
        return ("abs", len(v.flags.get("prefix_items", [])))
    return ("?", -1)


def repeated_operation(ctx, rule, I=None):
    """the same MasterOfPuppets asked twice: the second answer must be built from the second scan only"""
    I = I or match_interp(ctx.p)
    sc = match_scenarios(I, file_types=("assembly",), return_modes=("bool", "matched_addrs_list"),
                         search_modes=("first_find", "all_finds"), only_addrs=(False,), configs=({},), repeat=2)
    n = 0
    for s in sc:
        if s.path.kind != "return":
            continue
        marks = s.path.run.user.get("call_marks", [])
        if len(marks) < 2:
            continue
        n += 1
        second = reports_after(s, marks[1])
        first = [e for e in reports_after(s, marks[0]) if e not in second]
        v = s.path.value
        construct = f"MasterOfPuppets.perform_matching x2 [{s.cfg['return_mode']},{s.cfg['search_mode']}]"
        if s.cfg["return_mode"] == "bool":
            ok = isinstance(v, BoolV) and v.v == (len(second) > 0)
            ctx.check(ok, rule, construct, f"second={v!r} hits(second)={len(second)} hits(first)={len(first)}",
                      "the boolean of a repeated operation reflects the repeated scan only")
        else:
            kind, ln = list_len(v)
            if s.cfg["search_mode"] == "first_find":
                ok = kind == "conc" and ln == len(second)
            else:
                # all_finds: an abstract loop report makes the list abstract; earlier concrete items would show as prefix
                ok = (kind == "conc" and ln == 0 and not second) or (kind == "abs" and ln == 0 and len(second) == 1) \
                    or (kind == "conc" and ln == len(second))
            ctx.check(ok, rule, construct, f"second-list={v!r} hits(second)={len(second)} hits(first)={len(first)}"[:200],
                      "the list of a repeated operation holds the hits of the repeated scan only")
    return n


ALLOWED_KW = {"pattern", "string", "timeout"}
ADDR_PROJECTIONS = (".split('::')[0]", ".partition('::')[0]", ".split('::', 1)[0]", ".split('::', maxsplit=1)[0]")


def is_addr_projection(addr_expr: str, full_expr: str) -> bool:
    """addr_expr is the text before the first '::' of full_expr (any of the equivalent spellings)"""
    return any(addr_expr == full_expr + sfx for sfx in ADDR_PROJECTIONS)


def search_hit(path) -> bool:
    """did regex.search return a match on this path? (truthiness or an `is None` test of its result, either polarity)"""
    for k, v, _ in path.conds:
        ks = str(k)
        if "regex.search(" not in ks and "re.search(" not in ks and ".search(" not in ks:
            continue
        if isinstance(k, tuple) and k[0] == "truth":
            return bool(v)
        if isinstance(k, tuple) and k[0] == "eq" and "None" in ks:
            return not v
    return False


def scan_rules(ctx, R_api, R_stream, R_fwd=None):
    """the scan is one regex.finditer/search call over the whole in-order stream; every hit forwarded once"""
    import re
    from ..consumerflow import consumer_scenarios
    from ..models import make_interp
    I = make_interp(ctx.p)
    sc = consumer_scenarios(I, "two") + consumer_scenarios(I, "many")
    want_api = {"first_find": "regex.search", "all_finds": "regex.finditer"}
    entered = set()
    for mode in ("first_find", "all_finds"):
        for only in (False, True):
            for feed in ("two", "many"):
                mine = [s for s in sc if s.mode == mode and s.only_addr == only and s.feed == feed]
                rets = [s for s in mine if s.path.kind == "return"]
                construct = f"CompleteConsumer[{mode},only_addr={only},listing={feed}]"
                if not rets:
                    ctx.fail(R_api, construct, "no-returning-path", "the consumer never finishes normally")
                    continue
                for s in mine:
                    entered |= {e.func for e in s.path.events if e.kind == "enter" and e.func.startswith("CompleteConsumer")}
                # S1
                bad = []
                for s in rets:
                    calls = s.regex_calls(I)
                    if len(calls) != 1:
                        bad.append(f"{len(calls)} regex calls: {[c['name'] for c in calls]}")
                        continue
                    c = calls[0]
                    if c["name"] != want_api[mode]:
                        bad.append(f"calls {c['name']} (expected {want_api[mode]})")
                    extra = set(c["kwargs"]) - ALLOWED_KW
                    if extra or len(c["args"]) > 2:
                        bad.append(f"extra arguments {sorted(extra)} {c['args'][2:]}")
                    pat = c["kwargs"].get("pattern", c["args"][0] if c["args"] else None)
                    if pat != "<REGEX>":
                        bad.append(f"pattern={pat}")
                for s in mine:
                    if any(e.kind == "iterator_reused" for e in s.path.events):
                        bad.append("the scan's one-shot iterator is consumed before the loop that reports the hits "
                                   f"(path: {'; '.join(s.path.cond_labels())[:80]})")
                ctx.check(not bad, R_api, construct, ";".join(sorted(set(bad)))[:200],
                          f"exactly one {want_api[mode]}(pattern=<rule regex>, string=<stream>, timeout) call")
                # S3 stream
                bad = []
                seen_full = False
                for s in rets:
                    for c in s.regex_calls(I):
                        st = c["kwargs"].get("string", c["args"][1] if len(c["args"]) > 1 else "")
                        want = (r"<inst1\.stringify[^>]*>[^<]*<inst2\.stringify[^>]*>[^<]*" if feed == "two" else
                                r"JOIN\('',S'<inst\.stringify[^>]*>[^<']*' over consumed instructions\)")
                        if feed == "many" and st == "''" and any(l.startswith("not ") and "non-empty" in l for l in s.path.cond_labels()):
                            continue   # the path on which the listing is empty
                        if not re.fullmatch(want, st or ""):
                            bad.append(f"string={st}")
                        else:
                            seen_full = True
                if not seen_full and not bad:
                    bad.append("no path searches the joined stream")
                ctx.check(not bad, R_stream, construct, ";".join(sorted(set(bad)))[:200],
                          "the searched string is the in-order concatenation of every consumed record, whole")
                # S2 forwarding
                if R_fwd is None:
                    continue
                bad = []
                for s in rets:
                    labels = s.path.cond_labels()
                    rep = s.reported(I)
                    hit = (mode == "all_finds" and any("yields an element" in l and not l.startswith("not ") for l in labels)) or \
                          (mode == "first_find" and search_hit(s.path))
                    calls = s.regex_calls(I)
                    src = calls[0]["name"] if calls else "?"
                    if hit:
                        g0 = ("[*]" if mode == "all_finds" else "") + ".group(0)"
                        okrep = len(rep) == 1 and rep[0].startswith(src + "(") and (
                            rep[0].endswith(g0) if not only else any(rep[0].endswith(g0 + sfx) for sfx in ADDR_PROJECTIONS))
                        if not okrep:
                            bad.append(f"hit but reported {rep}")
                    elif rep:
                        bad.append(f"no hit but reported {rep}")
                ctx.check(not bad, R_fwd, construct, ";".join(sorted(set(bad)))[:240],
                          "every element of the scan is forwarded exactly once as M.group(0) (or its address prefix), "
                          "nothing else is forwarded")
    return entered, I


def compiled_with_own_config(ctx, rule):
    """the regex is generated while the rule's own config is the loaded one: MasterOfPuppets.__init__ both loads the
    config and produces the regex (nothing is deferred to match time, when another rule may have been loaded)"""
    from ..matchflow import match_interp, match_scenarios
    I = match_interp(ctx.p)
    n = 0
    for s in match_scenarios(I, file_types=("assembly",), return_modes=("bool",), search_modes=("first_find",),
                             only_addrs=(False,), configs=({"mnemonics-full-match": True},)):
        mark = s.path.run.user.get("init_events")
        if mark is None:
            continue
        ev = s.path.events
        prod = [i for i, e in enumerate(ev) if e.kind == "produce_regex"]
        loads = [i for i, e in enumerate(ev) if e.kind == "cfg_set"]
        n += 1
        ok = bool(prod) and bool(loads) and max(loads) < min(prod) and max(prod) < mark and len(prod) == 1
        ctx.check(ok, rule, "MasterOfPuppets.__init__",
                  f"config loaded at events {loads[:1]}..{loads[-1:]}, regex produced at {prod}, constructor ends at {mark}",
                  "the constructor loads the rule's config and then produces the regex, once; matching reuses that regex")
        if prod:
            snap = getattr(ev[prod[0]], "config", {})
            flags = (snap.get("MnemonicsFullMatch"), snap.get("OperandsFullMatch"))
            rule_cfg = s.cfg["config"]
            want = (str(bool(rule_cfg.get("mnemonics-full-match", False))), str(bool(rule_cfg.get("operands-full-match", False))))
            ctx.check(flags == want, rule, "MasterOfPuppets.__init__ (config in force when the regex is produced)",
                      f"MnemonicsFullMatch={flags[0]} OperandsFullMatch={flags[1]} for a rule whose config section is {rule_cfg}"[:200],
                      "when the regex is produced the singleton holds the rule's own full-match flags")
    return n


def flags_end_to_end(ctx, rule, patterns):
    """Yaml2Regex(<rule file>).produce_regex(), interpreted from the constructor on in a fresh process, gives for a
    rule whose config section sets the two full-match flags exactly the regex the compile pipeline gives for the same
    pattern under those flag values (the templates the obligations judge): the flags in force while the rule's nodes
    are built and rendered are the rule's own."""
    from ..matchflow import load_file_summary
    from ..models import lift_skeleton, make_interp
    from ..values import NONE, Hole, Obj, Str
    y2r = ctx.p.find_class("Yaml2Regex")
    Id = make_interp(ctx.p)
    Ie = make_interp(ctx.p, {"Yaml2Regex.load_file": load_file_summary})
    n = 0
    for label, pattern in patterns:
        def direct(I, pattern=pattern):
            from ..models import new_yaml2regex
            so = new_yaml2regex(I, lift_skeleton(I, {"pattern": pattern}))
            pats = I.call_func(y2r.find_method("_get_pattern"), [], {}, so, None, None)
            from ..models import rule_tree_call
            tree = rule_tree_call(I, y2r, so, pats)
            return I.call_func(tree.cls.find_method("get_regex"), [], {}, tree, None, None)
        by_flags = []
        for p in Id.explore(direct):
            fl = (p.assumed(("truth", "b", "cfg[MnemonicsFullMatch]")), p.assumed(("truth", "b", "cfg[OperandsFullMatch]")))
            by_flags.append((fl, p.kind, Id.expr_of(p.value) if p.kind == "return" else repr(p.exc)[:80]))
        for mn in (False, True):
            for op in (False, True):
                want = {(k, v) for fl, k, v in by_flags if fl[0] in (None, mn) and fl[1] in (None, op)}
                doc = {"config": {"mnemonics-full-match": mn, "operands-full-match": op}, "pattern": pattern}

                def e2e(I, doc=doc):
                    I.run.user["docs"] = {"<P0>": doc}
                    y = I.construct(y2r, [Str((Hole("P0", "path", True),))], {}, None, None)
                    return I.call_func(y2r.find_method("produce_regex"), [], {}, y, None, None)
                got = {(p.kind, Ie.expr_of(p.value) if p.kind == "return" else repr(p.exc)[:80]) for p in Ie.explore(e2e)}
                n += 1
                diff = sorted(got ^ want)
                ctx.check(not diff and bool(got), rule, f"Yaml2Regex(...).produce_regex() [{label}; mnemonics-full-match={mn}, operands-full-match={op}]",
                          (str(diff[0]) if diff else "no result")[:300],
                          "a rule loaded from its file compiles under the full-match flags of its own config section")
    return n


def assembly_text_unmodified(ctx, rule):
    """-s route: what the parser receives is open(<input>).read() in text mode (universal newlines), nothing decoded or
    rewritten by hand in between"""
    from ..matchflow import match_interp, run_sequence
    I = match_interp(ctx.p)
    runs = run_sequence(I, [{"config": {}, "file_type": "assembly"}])
    bad = set()
    for path, facts, results in runs:
        for text, cons, parser in path.run.user.get("parse_calls", []):
            ex = I.expr_of(text)
            if not (ex.startswith("open(") and ex.endswith(".read()") and "INPUT_0" in ex):
                bad.add(ex[:80])
        opens = [e for e in path.events if e.kind == "open" and "INPUT_0" in I.expr_of(e.file)]
        if not opens:
            bad.add("the input file is not opened with open()")
        for e in opens:
            mode = e.mode
            mt = I.expr_of(mode) if mode is not None else "'r'"
            if "b" in mt.strip("'\""):
                bad.add(f"open(..., mode={mt})")
            if "newline" in e.kwargs:
                bad.add("open(..., newline=...)")
    ctx.check(not bad and bool(runs), rule, "assembly route", ";".join(sorted(bad))[:200],
              "the listing's text reaches the parser as read in text mode (line ends translated), unmodified")


def compile_sequence_equals_fresh(ctx, rule, cases, same_object=False):
    """cases: (label, [doc, ..., last]): Yaml2Regex(<file>).produce_regex() for each document in turn, in ONE run
    (one process: shared singleton, class attributes, module state); the outcome for the last document - the regex, or
    the exception - must be the outcome of compiling the last document alone in a fresh run"""
    import re as _re
    from ..matchflow import load_file_summary
    from ..models import make_interp
    from ..values import NONE, Hole, Str
    y2r = ctx.p.find_class("Yaml2Regex")
    Ic = make_interp(ctx.p, {"Yaml2Regex.load_file": load_file_summary})

    def outcomes(docs):
        def thunk(I):
            I.run.user["docs"] = {f"<P{k}>": d for k, d in enumerate(docs)}
            r = NONE
            for k in range(len(docs)):
                try:
                    y = I.construct(y2r, [Str((Hole(f"P{k}", "path", True),))], {}, None, None)
                    r = I.call_func(y2r.find_method("produce_regex"), [], {}, y, None, None)
                except Exception:
                    if k == len(docs) - 1:
                        raise          # only the last compilation's failure is the outcome
            return r
        out = set()
        for p in Ic.explore(thunk):
            txt = Ic.expr_of(p.value) if p.kind == "return" else f"{p.exc.type_name}"
            out.add((p.kind, _re.sub(r"#\d+", "", txt).replace(f"P{len(docs) - 1}", "P0")))
        return out
    def again(doc):
        """the same Yaml2Regex object asked twice: the second regex (or failure) against the first"""
        def thunk(I):
            I.run.user["docs"] = {"<P0>": doc}
            y = I.construct(y2r, [Str((Hole("P0", "path", True),))], {}, None, None)
            r1 = I.call_func(y2r.find_method("produce_regex"), [], {}, y, None, None)
            I.run.user["first"] = r1
            return I.call_func(y2r.find_method("produce_regex"), [], {}, y, None, None)
        bad = []
        for p in Ic.explore(thunk):
            first = p.run.user.get("first")
            if first is None:
                continue                       # the first compilation failed: judged by the fresh-run comparison
            a = _re.sub(r"#\d+", "", Ic.expr_of(first))
            b = _re.sub(r"#\d+", "", Ic.expr_of(p.value)) if p.kind == "return" else f"raises {p.exc.type_name}"
            if a != b:
                bad.append(f"first {a[:110]} / second {b[:110]}")
        return bad
    n = 0
    for label, docs in cases:
        if same_object:
            bad = again(docs[-1])
            n += 1
            ctx.check(not bad, rule, f"compilation twice on one object [{label}]", (bad[0] if bad else "")[:300],
                      "asking the same Yaml2Regex object again gives the same regex")
        fresh = outcomes([docs[-1]])
        got = outcomes(docs)
        diff = sorted(got ^ fresh)
        n += 1
        ctx.check(not diff and bool(fresh), rule, f"compilation [{label}]", (str(diff[0]) if diff else "no outcome")[:300],
                  "a rule compiled after other rules in the same process gives what it gives compiled alone")
    return n


def observer_chain_rules(ctx, rule_drop, rule_keep):
    """see _observer_chain_rules (the same obligations are decided through the program's own wiring by wired_chain_rules)"""
    return _observer_chain_rules(ctx, rule_drop, rule_keep)


def _observer_chain_rules(ctx, rule_drop, rule_keep):
    """InstructionObserverConsumer._process_instruction with the two observers an operation can install
    (RemoveEmptyInstructions first, ValidAddrObserver second): the byte-continuation pseudo instruction (mnemonic 'empty')
    is dropped - nothing of it reaches the stream - and every other instruction is kept: consume_instruction appends
    exactly one record for it.  Plus: no instruction observer other than RemoveEmptyInstructions on 'empty' ever
    returns None (an observer may rewrite an instruction, never remove one)."""
    from ..models import make_interp
    from ..values import NONE, EnumV, FALSE, Hole, ListV, Obj, Str
    p = ctx.p
    I = make_interp(p)
    cc, mo = p.find_class("CompleteConsumer"), p.find_class("MatchedObserver")
    rem, vao, vr, ins = (p.find_class("RemoveEmptyInstructions"), p.find_class("ValidAddrObserver"), p.find_class("ValidAddrRange"),
                         p.find_class("Instruction"))
    mode_cls = p.find_class("MatchingSearchMode")
    T = lambda t: Str((Hole(t, "f", True),))
    # (the chain itself - what reaches the stream with one and with two observers installed - is decided through the program's
    # own wiring by wired_chain_rules; an earlier version of this rule installed the observers itself and misrepresented
    # programs that hand the consumer a compiled pattern or callables)
    # no observer removes an instruction
    for c in [c for m in p.modules.values() for c in m.classes.values()]:
        meth = c.methods.get("observe_instruction") if hasattr(c, "methods") else None
        if meth is None or c.name in ("IInstructionObserver",):
            continue

        def thunk2(I, c=c):
            kw = {}
            init = c.find_method("__init__")
            if init is not None and len(init.node.args.args) > 1:
                rng = I.construct(vr, [], {"min_addr": T("MIN"), "max_addr": T("MAX")}, None, None)
                o = I.construct(c, [rng], {}, None, None)
            else:
                o = I.construct(c, [], kw, None, None)
            inst = I.construct(ins, [], {"addr": T("ADDR"), "mnemonic": Str((Hole("MN", "f", True, lambda op, a: None),)), "operands": ListV([T("TGT")])}, None, None)
            return I.call_func(c.find_method("observe_instruction"), [inst], {}, o, None, None)
        for path in I.explore(thunk2):
            if path.kind != "return":
                continue
            if path.value is NONE:
                empty = any("empty" in str(k) and v for k, v, _ in path.conds)
                ctx.check(c.name == "RemoveEmptyInstructions" and empty, rule_keep, f"{c.name}.observe_instruction",
                          f"returns None under {[l for l in path.cond_labels()][:3]}"[:200],
                          "an instruction observer never removes an instruction (only the 'empty' pseudo instruction is removed, by RemoveEmptyInstructions)")
            else:
                ctx.ok(rule_keep, f"{c.name}.observe_instruction", "returns an instruction")


def stream_per_run(ctx, rule: str, search_modes=("all_finds", "first_find")) -> None:
    """the scan of an operation searches the stream of that operation's own listing: in two operations on one
    MasterOfPuppets the second searches what the first searched (nothing carried over, nothing accumulated)"""
    import re as _re
    from ..matchflow import match_interp, match_scenarios
    Im = match_interp(ctx.p)
    for sc in match_scenarios(Im, file_types=("assembly",), return_modes=("bool",), search_modes=search_modes, only_addrs=(False,),
                              configs=({},), repeat=2):
        if sc.path.kind != "return":
            continue
        streams = [_re.sub(r"#\d+", "", Im.expr_of(e.kwargs.get("string"))) for e in sc.path.events
                   if e.kind == "extern_call" and e.name.startswith("regex.")]
        ok = len(streams) == 2 and streams[0] == streams[1]
        ctx.check(ok, rule, f"MasterOfPuppets.perform_matching x2 [{sc.cfg.get('search_mode', '')}]", f"{streams}"[:220],
                  "a repeated operation searches the same stream as the first one (records are not accumulated across runs)")


def one_yaml_loader(ctx, rule: str) -> int:
    """every YAML document the program reads (the rule file, every extra macro file) is parsed by the same, safe, loader:
    the meaning of a macro body (`0x10`, `2`, `no`) must not depend on which file it was written in"""
    import ast as _ast
    n = 0
    seen = []
    for m in ctx.p.modules.values():
        yaml_names = {loc for loc, (mod, name) in m.imports.items() if mod == "yaml" and name is None}
        from_names = {loc: name for loc, (mod, name) in m.imports.items() if mod == "yaml" and name is not None}
        for node in _ast.walk(m.tree):
            if not isinstance(node, _ast.Call):
                continue
            fn = None
            if isinstance(node.func, _ast.Attribute) and isinstance(node.func.value, _ast.Name) and node.func.value.id in yaml_names:
                fn = node.func.attr
            elif isinstance(node.func, _ast.Name) and node.func.id in from_names:
                fn = from_names[node.func.id]
            if fn is None or not (fn.endswith("load") or fn.endswith("load_all")):
                continue
            loader = None
            for k in node.keywords:
                if k.arg == "Loader":
                    loader = _ast.unparse(k.value).split(".")[-1]
            if loader is None and len(node.args) > 1:
                loader = _ast.unparse(node.args[1]).split(".")[-1]
            kind = "safe" if fn in ("safe_load", "safe_load_all") or loader in ("SafeLoader", "CSafeLoader") else f"{fn}/{loader}"
            seen.append((f"{m.rel()}:{node.lineno}", kind))
    for where, kind in seen:
        n += 1
        ctx.check(kind == "safe", rule, where, f"loader kind {kind}; all loads: {sorted({k for _, k in seen})}",
                  "every YAML document is parsed with the safe loader (one meaning for a scalar, whichever file it is written in)")
    if not seen:
        from ..facts import AnalysisError
        raise AnalysisError("no YAML load found in the program (anchor vanished)")
    return n


def wired_chain_rules(ctx, rule_drop, rule_keep) -> None:
    """through the program's OWN wiring (MasterOfPuppets.perform_matching builds consumer and observers, however it hands
    them over): a listing of a byte-continuation pseudo instruction followed by an ordinary instruction gives a searched
    stream of exactly one record, the ordinary instruction's - with and without a configured valid_addr_range"""
    from ..matchflow import load_file_summary, match_scenarios, parse_summary, produce_regex_summary
    from ..models import Sym, make_interp
    from ..values import Hole, ListV, Str
    # the observers themselves are interpreted here (no summary of the tagging observer)
    Im = make_interp(ctx.p, {"ObjdumpParserManual.parse": parse_summary, "Yaml2Regex.produce_regex": produce_regex_summary,
                             "Yaml2Regex.load_file": load_file_summary}, max_paths=60000)
    ins = ctx.p.find_class("Instruction")
    T = lambda t: Str((Hole(t, "f", True),))

    def feed_for(second):
        def feed(I):
            # "any": a mnemonic about which nothing is known except that it is not the pseudo mnemonic `empty`
            mn = Str.lit(second) if second != "any" else Str((Hole("MN", "f", True, lambda op, a: False if (op == "eq" and a == "empty") else None),))
            return [I.construct(ins, [], {"addr": T("A1"), "mnemonic": Str.lit("empty"), "operands": ListV([])}, None, None),
                    I.construct(ins, [], {"addr": T("A2"), "mnemonic": mn, "operands": ListV([T("OP")])}, None, None)]
        return feed
    sc = []
    for second in ("mov", "call", "any"):
        for s_ in match_scenarios(Im, file_types=("assembly",), return_modes=("bool",), search_modes=("first_find", "all_finds"),
                                  only_addrs=(False,), configs=({}, {"valid_addr_range": {"min": Sym("RANGE_MIN"), "max": Sym("RANGE_MAX")}}),
                                  feed=feed_for(second)):
            s_.cfg["second"] = second
            sc.append(s_)
    for s in sc:
        construct = (f"perform_matching[{s.cfg['search_mode']}, range {'configured' if s.cfg['config'] else 'absent'}]: listing = empty pseudo "
                     "instruction, " + {'mov': 'ordinary instruction', 'call': 'direct call', 'any': 'instruction with any other mnemonic'}[s.cfg['second']])
        if s.path.kind != "return":
            if any(isinstance(k, tuple) and k[0] == "noraise" and v is False for k, v, _ in s.path.conds):
                continue        # the modelled regex timeout
            if s.cfg["second"] in ("call", "any") and s.path.exc.type_name == "ValueError":
                continue        # int() of an opaque branch target may raise: outside this rule
            ctx.fail(rule_keep, construct, f"raises {s.path.exc.type_name}", "the operation raises on a two-line listing")
            continue
        streams = [Im.expr_of(e.kwargs.get("string")) for e in s.path.events if e.kind == "extern_call" and e.name.startswith("regex.")]
        if len(streams) != 1:
            ctx.fail(rule_keep, construct, f"{len(streams)} searches", "one search per operation")
            continue
        st = streams[0]
        ctx.check("A1" not in st and "empty" not in st, rule_drop, construct, st[:160],
                  "nothing of the byte-continuation pseudo instruction reaches the searched stream")
        ctx.check(st.count("|") == 1 and "A2" in st, rule_keep, construct, st[:160],
                  "the other instruction reaches the searched stream as exactly one record")


def searched_pattern_is_the_rule(ctx, rule: str) -> int:
    """in every mode combination (first/all, address-only or not, every return mode) the pattern handed to the regex engine is
    the regex the rule compiled to - as produced, or compiled from exactly that text - never a rewritten one"""
    import re as _re
    from ..matchflow import match_interp, match_scenarios
    Im = match_interp(ctx.p)
    n = 0
    seen = {}
    for s in match_scenarios(Im, file_types=("assembly",), configs=({},)):
        if s.path.kind != "return":
            continue
        key = (s.cfg["search_mode"], s.cfg["only_addr"], s.cfg["return_mode"])
        for e in s.path.events:
            if e.kind == "extern_call" and e.name.startswith("regex.") or (e.kind == "extern_call" and e.name.startswith("re.")
                                                                          and e.name.split(".")[-1] in ("search", "finditer", "match", "fullmatch", "findall")):
                pat = _re.sub(r"#\d+", "", Im.expr_of(e.kwargs.get("pattern")))
                seen.setdefault(key, set()).add(pat)
    for key, pats in sorted(seen.items(), key=str):
        n += 1
        ok = all(p_ == "<REGEX>" or _re.fullmatch(r"(regex|re)\.compile\(<REGEX>\)", p_) for p_ in pats)
        ctx.check(ok, rule, f"perform_matching[{key[0]},only_addr={key[1]},{key[2]}]", f"pattern searched: {sorted(pats)}"[:200],
                  "the pattern searched is the regex the rule compiled to, unmodified")
    if not seen:
        from ..facts import AnalysisError
        raise AnalysisError(f"{rule}: no regex search seen in the match flow")
    return n


def macro_files_reach_the_compiler(ctx, rule: str) -> int:
    """the extra macro files named in MatchConfig.macros are handed to Yaml2Regex as given: the same list, nothing dropped,
    expanded or reordered on the way (a file that silently disappears takes its definitions with it)"""
    from ..matchflow import match_interp, match_scenarios
    from ..values import Hole, ListV, Str
    Im = match_interp(ctx.p)
    given = ListV([Str((Hole("MACRO_FILE_1", "path", True),)), Str((Hole("MACRO_FILE_2", "path", True),))])
    n = 0
    for s in match_scenarios(Im, file_types=("assembly",), return_modes=("bool",), search_modes=("first_find",), only_addrs=(False,),
                             configs=({},), macros=given):
        cons = [e for e in s.path.events if e.kind == "construct" and e.cls == "Yaml2Regex"]
        if not cons:
            continue
        n += 1
        e = cons[0]
        vals = list(e.args) + list(e.kwargs.values())
        got = [Im.expr_of(v) for v in vals]
        ok = any(v is given or (isinstance(v, ListV) and v.absorbed is None and [Im.expr_of(x) for x in v.items] ==
                                ["<MACRO_FILE_1>", "<MACRO_FILE_2>"]) for v in vals)
        ctx.check(ok, rule, "MasterOfPuppets.__init__ -> Yaml2Regex(...)", f"Yaml2Regex receives {got}"[:200],
                  "Yaml2Regex receives the list of extra macro files exactly as MatchConfig.macros names them")
    if n == 0:
        from ..facts import AnalysisError
        raise AnalysisError(f"{rule}: no construction of Yaml2Regex seen in the match flow")
    return n
