"""C19 -- every @macro reference is expanded or reported, never silently kept."""
from ..models import lift_skeleton, make_interp
from ..values import DictV, Hole, ListV, Lit, NONE, Obj, SetV, Str, TupleV, Unknown, Value

FLOORS = {"C19.O1.undefined-reference-reported": 12, "C19.O4.no-reference-survives": 6, "C19.O3.macro-name-validated": 2,
          "C19.O2.expander-entered": 2}


def undef(tag="UNDEF"):
    """an abstract reference '@<name>' to a macro that has no definition"""
    return Str((Lit("@"), Hole(tag, "name", True, lambda op, arg: False, meta={"cat": "undefined-macro"})))


class Ref:
    def __init__(self, tag="UNDEF"):
        self.tag = tag


def lift(I, x):
    from ..models import Sym, plain_name
    if isinstance(x, Ref):
        return undef(x.tag)
    if isinstance(x, Sym):
        return plain_name(x.tag)
    if isinstance(x, dict):
        return DictV([(lift(I, k), lift(I, v)) for k, v in x.items()])
    if isinstance(x, list):
        return ListV([lift(I, v) for v in x])
    return I.lift(x)


def leftovers(v: Value, out=None, seen=None, names=()):
    """strings starting with '@' - and strings that still contain the name of one of the defined macros `names` - anywhere
    in a (possibly cyclic) tree"""
    out = [] if out is None else out
    seen = set() if seen is None else seen
    if id(v) in seen:
        return out
    if isinstance(v, Str):
        if v.atoms and isinstance(v.atoms[0], Lit) and v.atoms[0].startswith("@"):
            out.append(v.render())
        elif any(isinstance(a, Lit) and n in a for a in v.atoms for n in names):
            out.append(v.render())
    elif isinstance(v, (ListV, TupleV)):
        seen.add(id(v))
        for x in v.items:
            leftovers(x, out, seen, names)
    elif isinstance(v, DictV):
        seen.add(id(v))
        for k, x in v.pairs:
            leftovers(k, out, seen, names)
            leftovers(x, out, seen, names)
    return out


M = [{"name": "@m", "pattern": "nop"}]
BLOCK = [{"name": "@blk", "pattern": [{"$or": ["shl", "shr"]}]}]
U = Ref()
SHAPES = [
    # (label, macros, pattern, expect_undefined)
    ("list item", M, [U, "@m"], True),
    ("list item, reference last", M, ["@m", U], True),
    ("operand", M, [{"mov": [U, "@m"]}], True),
    ("operand under $or", M, [{"mov": [{"$or": [U, "rax"]}]}, "@m"], True),
    ("dict value ($deref field)", M, [{"mov": [{"$deref": {"main_reg": U}}]}, "@m"], True),
    ("dict key with a times body", M, [{U: {"times": 2}}, "@m"], True),
    ("dict key with operands", M, [{U: ["rax"]}, "@m"], True),
    ("nested group", M, [{"$and": [{"$not": [U]}, "@m"]}], True),
    ("only block macros defined", BLOCK, ["@blk", U], True),
    ("inside the body of the only macro", [{"name": "@m", "pattern": [{"$or": [U, "zzz"]}]}], ["@m"], True),
    ("inside the body of the last macro", M + [{"name": "@l", "pattern": [{"$and": ["push", U]}]}], ["@m", "@l"], True),
    ("inside the body of the first macro", [{"name": "@f", "pattern": [{"$and": ["push", U]}]}] + M, ["@f", "@m"], True),
    ("macro defined before its user, whose body has an undefined reference",
     [{"name": "@clear", "pattern": [{"$or": [{"xor": [U]}, "x"]}]}, {"name": "@user", "pattern": [{"$and": ["@clear"]}]}],
     ["@user"], True),
    ("reference in key position inside a macro body", [{"name": "@k", "pattern": [{U: {"times": 3}}]}], ["@k"], True),
    ("two different undefined references", M, [Ref("U1"), {"mov": [Ref("U2")]}, "@m"], True),
    ("definitions supplied but unused: reference as item", M, [U], True),
    ("definitions supplied but unused: reference as operand", M + BLOCK, [{"mov": [U, "rax"]}], True),
    ("definitions supplied but unused: reference as key with body", BLOCK, [{U: {"times": 2}}, "nop"], True),
    ("definitions supplied but unused: reference under $or", M, [{"$or": [U, "nop"]}], True),
    ("all defined: item, operand, key", M + BLOCK, ["@m", {"mov": ["@m"]}, {"@m": {"times": 2}}, "@blk"], False),
    ("all defined: user listed before used", [{"name": "@a", "pattern": [{"$or": ["@b", "zzz"]}]}, {"name": "@b", "pattern": "nop"}],
     ["@a"], False),
    ("definitions that refer to each other in a cycle", [{"name": "@a", "pattern": [{"$or": ["@b", "xxx"]}]},
                                                         {"name": "@b", "pattern": [{"$or": ["@a", "yyy"]}]}], ["@a", "nop"], False),
    ("a definition whose body refers to itself", [{"name": "@s", "pattern": [{"$and": ["push", "@s"]}]}], ["@s"], False),
    ("string macros that stand for each other", [{"name": "@p", "pattern": "@q"}, {"name": "@q", "pattern": "@p"}],
     [{"mov": ["@p", "rax"]}], False),
    ("all defined: string macro inside a name", [{"name": "@any", "pattern": "[^,| ]{1,1000}"}], [{"mov": ["%r@any"]}], False),
    ("all defined: string macro several times inside one name", [{"name": "@reg", "pattern": "r[a-d]x"}, {"name": "@l", "pattern": "l"}],
     [{"lea": ["%@reg\\+%@reg\\*4", "@reg"]}, {"cmov@l@l": ["x@regy@regz@reg"]}, "j@l@l"], False),
]


def run(ctx) -> None:
    ctx.explanation = (
        "MacroExpander.resolve_all_macros (and Yaml2Regex._get_pattern around it) is interpreted on rule skeletons that "
        "place an ABSTRACT undefined reference '@<name>' (equal to / contained in no defined macro name) at every "
        "position a reference can occupy - list item, operand, under an operator, dict value, dict key with a times or "
        "operand body, inside the body of the first / only / last macro, in a macro listed before its user, two at "
        "once - next to defined macros of the string and block kinds. On EVERY path the operation must raise an error "
        "whose message holds the leftover reference; on no returning path may a string starting with '@' remain in the "
        "expanded tree; a macro whose own name lacks '@' is rejected before any expansion.")
    ctx.assumptions += ["references are whole strings starting with '@' (the property's positions); '@' inside a longer "
                        "name is the string-macro use form, not a reference position"]
    ctx.analysed_fn("MacroExpander.resolve_all_macros", "MacroExpander._apply_macro_recursively",
                    "MacroExpander._process_dict_tree", "MacroExpander._process_str_tree", "MacroExpander._apply_macro_to_tree",
                    "MacroExpander._collect_macro_references", "MacroExpander.is_macro_name", "Yaml2Regex._get_pattern")
    I = make_interp(ctx.p)
    y2r = ctx.p.find_class("Yaml2Regex")
    me = ctx.p.find_class("MacroExpander")
    shape_rules(ctx, I, "C19.O1.undefined-reference-reported", "C19.O4.no-reference-survives", "C19.O2.expander-entered")
    if ctx.tier == "thorough":
        # an undefined reference at EVERY position of a set of base rules, with used and with unused definitions
        from ..treegen import BASES, positions, replace_at
        n = 0
        for blabel, base in BASES:
            for path, kind, val in positions(base):
                if kind == "subtree":
                    continue
                bad = replace_at(base, path, U)
                for mlabel, macros, extra_items in (("used", M, ["@m"]), ("unused", M, []), ("block", BLOCK, ["@blk"])):
                    def thunkp(I, macros=macros, pattern=bad + extra_items):
                        o = I.construct(me, [], {}, None, None)
                        return I.call_func(me.find_method("resolve_all_macros"), [], {
                            "macros": lift(I, macros), "pattern_tree": lift(I, {"$and": pattern})}, o, None, None)
                    for p in I.explore(thunkp):
                        n += 1
                        ok = p.kind == "raise" and p.exc.type_name == "ValueError" and any(x.startswith("@") for x in _names(p.exc))
                        ctx.check(ok, "C19.O1.every-position", f"resolve_all_macros[{blabel}: {kind} at {path}; definitions {mlabel}]"[:130],
                                  ("returns " + repr(leftovers(p.value)) if p.kind == "return" else repr(p.exc))[:160],
                                  "an undefined reference at any position of the rule is reported")
        ctx.extra["positions_tried"] = n
    _rest(ctx, I, me, y2r)
    # O7: the extra macro files the user names reach the compiler as named
    from ._matchrules import macro_files_reach_the_compiler
    macro_files_reach_the_compiler(ctx, "C19.O7.extra-files-reach-the-compiler")


def shape_rules(ctx, I, R1, R4, R2, only_undefined=False):
    me = ctx.p.find_class("MacroExpander")
    y2r = ctx.p.find_class("Yaml2Regex")
    for label, macros, pattern, expect_undef in SHAPES:
        if only_undefined and not expect_undef:
            continue
        for via in ("expander", "pipeline"):
            def thunk(I, macros=macros, pattern=pattern, via=via):
                if via == "expander":
                    o = I.construct(me, [], {}, None, None)
                    return I.call_func(me.find_method("resolve_all_macros"), [], {
                        "macros": lift(I, macros), "pattern_tree": lift(I, {"$and": pattern})}, o, None, None)
                from ..models import new_yaml2regex
                so = new_yaml2regex(I, lift(I, {"macros": macros, "pattern": pattern}))
                return I.call_func(y2r.find_method("_get_pattern"), [], {}, so, None, None)
            paths = I.explore(thunk)
            construct = f"MacroExpander.resolve_all_macros[{label}]" if via == "expander" else f"Yaml2Regex._get_pattern[{label}]"
            entered = any(e.kind == "enter" and e.func == "MacroExpander.resolve_all_macros" for p in paths for e in p.events)
            if via == "pipeline":
                ctx.check(entered, R2, construct, "expander not entered",
                          "a rule that supplies macro definitions goes through the expander")
            for p in paths:
                if p.kind == "return":
                    left = leftovers(p.value, names=tuple(m["name"] for m in macros if isinstance(m.get("name"), str)))
                    if expect_undef:
                        ctx.fail(R1, construct,
                                 f"returns normally ({'; '.join(p.cond_labels())[:80]}) leftovers={left}",
                                 f"an undefined reference ({label}) must end in an error on every path")
                    else:
                        ctx.check(not left, R4, construct, f"leftovers={left}",
                                  f"after expansion no string starting with '@' remains ({label})")
                else:
                    named = _names(p.exc)
                    if expect_undef:
                        ok = p.exc.type_name == "ValueError" and any(n.startswith("@") for n in named)
                        ctx.check(ok, R1, construct,
                                  f"raises {p.exc!r} naming {named}"[:200], f"the error names the leftover reference ({label})")
                    else:
                        ctx.ok(R4, construct, f"raises (loud): {p.exc!r}"[:100])


def _has_ref(x) -> bool:
    if isinstance(x, Ref):
        return True
    if isinstance(x, dict):
        return any(_has_ref(k) or _has_ref(v) for k, v in x.items())
    if isinstance(x, list):
        return any(_has_ref(v) for v in x)
    return False


def _rest(ctx, I, me, y2r):
    # O5: a rule compiled after another rule (same extra macro file) is judged on its own definitions
    from ..matchflow import load_file_summary
    Is = make_interp(ctx.p, {"Yaml2Regex.load_file": load_file_summary})
    lib = {"macros": [{"name": "@load", "pattern": [{"$and": [{"mov": ["@src", "@acc"]}]}]}]}
    full = {"macros": [{"name": "@src", "pattern": "rbx"}, {"name": "@acc", "pattern": "rax"}], "pattern": ["@load"]}
    missing = {"macros": [{"name": "@src", "pattern": "rbx"}], "pattern": ["@load"]}
    for label, seq in (("alone", [missing]), ("after a rule that defines the missing macro", [full, missing]),
                       ("twice", [missing, missing])):
        def thunk5(I, seq=seq):
            I.run.user["docs"] = {"<LIB>": lib}
            r = NONE
            for k, doc in enumerate(seq):
                from ..models import new_yaml2regex
                so = new_yaml2regex(I, _lift_plain(I, doc), ListV([Str((Hole("LIB", "path", True),))]))
                try:
                    r = I.call_func(y2r.find_method("_get_pattern"), [], {}, so, None, None)
                except Exception as exc:  # the last compilation decides
                    if k == len(seq) - 1:
                        raise
            return r
        from ..absint import RaiseEx
        paths = Is.explore(thunk5)
        bad = [p for p in paths if p.kind == "return"]
        ctx.check(not bad and paths, "C19.O5.judged-on-own-definitions", f"Yaml2Regex._get_pattern[extra macro file, {label}]",
                  f"{len(bad)} path(s) return; leftovers={leftovers(bad[0].value) if bad else ''} conds={bad[0].cond_labels()[:4] if bad else ''}"[:240],
                  f"a rule whose library macro refers to an undefined macro is rejected ({label})")
    # O6: macro definitions supplied through extra files are in play whatever the rule's own `macros` section looks like
    # (absent, null, empty, non-empty): a reference is expanded or reported, never kept
    lib2 = {"macros": [{"name": "@lib", "pattern": "nop"}]}
    for mlabel, msec in (("absent", "ABSENT"), ("null", None), ("empty list", []), ("one definition", [{"name": "@own", "pattern": "ret"}])):
        for plabel, pattern in (("a reference the extra file defines", ["@lib", "push"]), ("an undefined reference", ["@lib", {"mov": [U]}]),
                                ("only an undefined reference", [U])):
            doc = {"pattern": pattern}
            if msec != "ABSENT":
                doc["macros"] = msec

            def thunk6(I, doc=doc):
                I.run.user["docs"] = {"<LIB>": lib2}
                from ..models import new_yaml2regex
                so = new_yaml2regex(I, lift(I, doc), ListV([Str((Hole("LIB", "path", True),))]))
                return I.call_func(y2r.find_method("_get_pattern"), [], {}, so, None, None)
            for p in Is.explore(thunk6):
                left = leftovers(p.value) if p.kind == "return" else []
                ctx.check(p.kind == "raise" or not left, "C19.O6.extra-files-always-considered",
                          f"Yaml2Regex._get_pattern[rule macros section {mlabel}; {plabel}]", f"returns with leftovers={left}"[:160],
                          "with an extra macro file given, every @reference is expanded or the compilation fails")
    # O3 macro name validation happens first
    for bad in ("m", "macro@x", ""):
        def thunk3(I, bad=bad):
            o = I.construct(me, [], {}, None, None)
            return I.call_func(me.find_method("resolve_all_macros"), [], {
                "macros": lift(I, M + [{"name": bad, "pattern": "nop"}]), "pattern_tree": lift(I, {"$and": ["@m", bad or "x"]})},
                o, None, None)
        paths = I.explore(thunk3)
        ok = all(p.kind == "raise" and p.exc.type_name in ("ValueError", "AssertionError") for p in paths)
        ctx.check(ok, "C19.O3.macro-name-validated", "MacroExpander.resolve_all_macros", f"macro name {bad!r} accepted",
                  f"a macro whose name is {bad!r} (no leading '@') is rejected")


def _lift_plain(I, x):
    if isinstance(x, dict):
        return DictV([(_lift_plain(I, k), _lift_plain(I, v)) for k, v in x.items()])
    if isinstance(x, list):
        return ListV([_lift_plain(I, v) for v in x])
    return I.lift(x)


def _names(exc):
    out = []
    for a in exc.args:
        if isinstance(a, Str):
            for h in a.holes():
                of = h.meta.get("of")
                if isinstance(of, SetV):
                    out += [x.render() if isinstance(x, Str) else repr(x) for x in of.items]
            out.append(a.render())
    return out
