"""C08 -- every disassembled instruction line yields exactly one stream instruction (NARROW: documented line kinds)."""
from .. import shapes
from ..models import make_interp

FLOORS = {"C08.Q.searched-stream-is-this-operations": 2, "C08.K1.instruction-line-gives-one-instruction": 12, "C08.K2.other-line-kinds-give-nothing": 6,
          "C08.K3.one-per-line-in-file-order": 1, "C08.K5.parser-total-on-printed-operand-forms": 8}


def run(ctx) -> None:
    ctx.explanation = (
        "NARROW CLAIM. The property quantifies over everything objdump can print; objdump's grammar is not in the "
        "repository. Decided here, on TOKEN TEMPLATES (a line whose variable parts - address, mnemonic, register names, "
        "constants, symbol - are opaque non-empty tokens over stated alphabets, so that one template stands for every "
        "instantiation): the repository's own LineParser.parse is interpreted on 15 instruction-line shapes (no operands, "
        "registers, immediates, every memory form of C09, # comments, <symbol> annotations, indentation variants, (bad)) "
        "and must return exactly one Instruction carrying that line's address and mnemonic (K1); on the documented "
        "non-instruction line kinds - blank, section header, file-format header, symbol label, '...' elision - it must "
        "return no Instruction, and a byte-continuation line only the 'empty' pseudo instruction that the always-first "
        "observer removes (K2); ObjdumpParserManual.parse forwards one result per line in file order (K3, shared with "
        "C16.I4); the Instruction's fields come from that line's own regex groups (K4, shared with C10.F); and the "
        "operand forms objdump prints do not make the normaliser raise (K5: the C09 forms plus the 16-bit addressing "
        "forms (a,b) / k(a,b), for which the parser DOES fail today: known finding). NOT decided: line kinds and operand "
        "forms outside these lists.")
    ctx.assumptions += ["the enumerated line kinds and operand forms are what objdump -d -M att prints (documented syntax)",
                        "tokens never contain the structural characters ( ) , $ % < > # : blank TAB"]
    ctx.analysed_fn("LineParser.parse", "LineParser.parse_instruction", "LineParser.parse_instruction_no_operands",
                    "LineParser.parse_nop_padding", "OperandsParser.parse (one operand)", "ObjdumpParserManual.parse",
                    "parse_file_lines", "RemoveEmptyInstructions.observe_instruction")
    I = make_interp(ctx.p)
    shapes.line_record_rule(ctx, I, "C08.K1.instruction-line-gives-one-instruction")
    if ctx.tier == "thorough":
        shapes.thorough_line_rule(ctx, I, "C08.K1.instruction-line-gives-one-instruction")
    shapes.other_lines_rule(ctx, I, "C08.K2.other-line-kinds-give-nothing")
    from ._parser import forwarding_rule, instr_patterns, lines_parsed_independently, site_field_kinds
    forwarding_rule(ctx, "C08.K3.one-per-line-in-file-order")
    lines_parsed_independently(ctx, "C08.K3.lines-parsed-independently")
    _paths, sites, _pats = instr_patterns(make_interp(ctx.p), ctx)
    site_field_kinds(ctx, "C08.K4.address-and-mnemonic-are-the-lines-own", make_interp(ctx.p), sites)
    # K2b: the pseudo instruction of a byte-continuation line is removed before it reaches the stream
    from ..matchflow import match_interp, match_scenarios
    from ..values import ListV, Obj
    Im = match_interp(ctx.p)
    for s in match_scenarios(Im, return_modes=("bool",), search_modes=("first_find",), only_addrs=(False,)):
        if s.path.kind != "return":
            continue
        cons = [e.obj for e in s.path.events if e.kind == "construct" and e.cls == "CompleteConsumer"]
        obs = cons[-1].fields.get("instruction_observers") if cons else None
        from ..matchflow import wrapped_observer
        first = wrapped_observer(obs.items[0]) if isinstance(obs, ListV) and obs.items else None
        ctx.check(isinstance(first, Obj) and first.cls.name == "RemoveEmptyInstructions", "C08.K2.empty-pseudo-instruction-removed",
                  f"perform_matching[{s.cfg['file_type']},cfg={sorted(s.cfg['config'])}]",
                  f"first observer is {first.cls.name if isinstance(first, Obj) else first!r}",
                  "RemoveEmptyInstructions is the first instruction observer of every operation")
    shapes.parser_total_rule(ctx, I, "C08.K5.parser-total-on-printed-operand-forms")
    from ._matchrules import observer_chain_rules
    observer_chain_rules(ctx, "C08.K6.empty-pseudo-instruction-never-reaches-the-stream", "C08.K6.every-other-instruction-reaches-the-stream")
    from ._matchrules import wired_chain_rules
    wired_chain_rules(ctx, "C08.K6.empty-pseudo-instruction-never-reaches-the-stream", "C08.K6.every-other-instruction-reaches-the-stream")
    # Q: the regex is searched in the stream of this operation's own listing (nothing carried over from an earlier operation)
    from ._matchrules import stream_per_run
    stream_per_run(ctx, "C08.Q.searched-stream-is-this-operations")
    # K7: the listing is read as text, unmodified (line ends as the platform's text mode gives them, nothing rewritten)
    from ._matchrules import assembly_text_unmodified
    assembly_text_unmodified(ctx, "C08.K7.listing-read-in-text-mode")
