"""C20 -- the `jasm` command reports what the library computes."""
import re

from ..consumerflow import observer_two_reports
from ..facts import AnalysisError
from ..matchflow import match_interp, match_scenarios
from ..models import make_interp
from ..values import NONE, BoolV, EnumV, ListV, Obj, Str, Unknown

FLOORS = {"C20.L1.argparse-spec": 6, "C20.L2.option-plumbing": 8, "C20.L3.same-engine-once": 2, "C20.L4.log-lines": 3,
          "C20.L4.finalize-reached": 8, "C20.L5.failures-exit-nonzero": 2}


def _info_text(e) -> str:
    """the line a logger.info(fmt, *args) call emits when the format and the arguments are constants ('?' otherwise)"""
    a = e.args
    if not a or not isinstance(a[0], Str) or not a[0].is_concrete():
        return "?"
    fmt, rest = a[0].text(), a[1:]
    if not rest:
        return fmt.strip()
    if all(isinstance(x, Str) and x.is_concrete() for x in rest):
        try:
            return (fmt % tuple(x.text() for x in rest)).strip()
        except (TypeError, ValueError):
            return "?"
    return fmt.strip()


def run(ctx) -> None:
    ctx.explanation = (
        "parse_args_from_console is interpreted to read the argparse specification from its add_argument calls "
        "(required -p, one required mutually exclusive group holding exactly -b/-s, store_true flags with default "
        "False, --macros nargs='+'); main() is interpreted on an opaque Namespace: on every path each MatchConfig field "
        "is the corresponding args attribute, unmodified (input file and type chosen by the same attribute, all_finds "
        "iff --all-matches), the library entry point MasterOfPuppets(match_config).perform_matching() is called exactly "
        "once and a failure propagates; 'Matched address' is logged in regex_matched with the appended value, "
        "'RESULT: Pattern found/not found' by the branch on `matched` in finalize, which every successful operation "
        "reaches exactly once after the scan; INFO logging is on by default; the console script is jasm.main:main.")
    ctx.assumptions += ["argparse and logging behave as documented"]
    ctx.analysed_fn("parse_args_from_console", "main", "start_configurations", "decide_assembly_or_binary",
                    "MatchedObserver.regex_matched", "MatchedObserver.finalize", "CompleteConsumer.finalize",
                    "configure_logger", "pyproject.toml [tool.poetry.scripts]")
    I = make_interp(ctx.p)
    # L1
    pf = ctx.p.find_func("parse_args_from_console")
    paths = I.explore(lambda I: I.call_func(pf, [], {}, None, None, None))
    for p in paths:
        if p.kind != "return":
            ctx.fail("C20.L1.argparse-spec", "parse_args_from_console", f"raises {p.exc!r}", "argument parsing set-up raises")
            continue
        spec, groups = {}, {}
        for e in p.events:
            if e.kind != "call_unknown":
                continue
            if e.target.endswith(".add_mutually_exclusive_group"):
                groups[e.target.split(".add_mutually")[0]] = {k: I.expr_of(v) for k, v in e.kwargs.items()}
            if e.target.endswith(".add_argument"):
                flags = [a.text() for a in e.args if isinstance(a, Str) and a.is_concrete()]
                owner = "group" if "add_mutually_exclusive_group" in e.target else "parser"
                for fl in flags:
                    spec[fl] = (owner, {k: I.expr_of(v) for k, v in e.kwargs.items()})
        def kw(flag):
            return spec.get(flag, ("?", {}))[1]
        checks = [
            ("-p/--pattern required", "--pattern" in spec and "-p" in spec and kw("--pattern").get("required") == "True"),
            ("-b/--binary and -s/--assembly in one mutually exclusive group", all(spec.get(f, ("?",))[0] == "group" for f in ("-b", "--binary", "-s", "--assembly"))
             and sum(1 for f, (o, _) in spec.items() if o == "group" and f.startswith("--")) == 2),
            ("the group is required", len(groups) == 1 and list(groups.values())[0].get("required") == "True"),
            ("--all-matches is store_true, default False", kw("--all-matches").get("action") == "'store_true'" and kw("--all-matches").get("default", "False") == "False"),
            ("--return_only_address is store_true, default False", kw("--return_only_address").get("action") == "'store_true'" and kw("--return_only_address").get("default", "False") == "False"),
            ("--macros takes one or more files", kw("--macros").get("nargs") == "'+'"),
            ("the path options reach the library as typed: type is str or absent, no default, no action (-p, -b, -s, --macros)",
             all(kw(f).get("type", "str") in ("str", "<extern str>", "None") and "default" not in kw(f) and "action" not in kw(f) and "choices" not in kw(f)
                 for f in ("--pattern", "--binary", "--assembly", "--macros"))),
            ("--info defaults to True", kw("--info").get("default") == "True"),
            ("terminal logging defaults to on", kw("--enable_logging_to_terminal").get("default") == "True"),
        ]
        for label, ok in checks:
            ctx.check(ok, "C20.L1.argparse-spec", "parse_args_from_console", label, label)
    # L2 / L3
    perf_calls = []

    def s_init(I, func, self_val, args, kwargs, node, fr):
        I.run.user.setdefault("mop_inits", []).append((args, kwargs))
        return NONE

    def s_perf(I, func, self_val, args, kwargs, node, fr):
        I.run.user.setdefault("perf_calls", []).append(self_val)
        return Unknown("RESULT")
    from ..matchflow import load_file_summary, produce_regex_summary
    base = {"Yaml2Regex.load_file": load_file_summary, "Yaml2Regex.produce_regex": produce_regex_summary}
    Ic = make_interp(ctx.p, {**base, "MasterOfPuppets.perform_matching": s_perf,
                             "parse_args_from_console": lambda I, f, s, a, k, n, fr: Unknown("args", {"truthy": True, "expr": "args", "not_none": True}),
                             "configure_logger": lambda I, f, s, a, k, n, fr: I.run.user.setdefault("conf_logger", []).append(k) or NONE})
    mainf = ctx.p.find_func("main")
    mpaths = Ic.explore(lambda I: I.call_func(mainf, [], {}, None, None, None))
    rets = [p for p in mpaths if p.kind == "return"]
    if not rets:
        ctx.fail("C20.L3.same-engine-once", "main", "main() never returns", "main never completes")
    for p in rets:
        inits = [(e.args, e.kwargs) for e in p.events if e.kind == "construct" and e.cls == "MasterOfPuppets"]
        perfs = p.run.user.get("perf_calls", [])
        ctx.check(len(inits) == 1 and len(perfs) == 1, "C20.L3.same-engine-once", "main",
                  f"{len(inits)} MasterOfPuppets / {len(perfs)} perform_matching calls",
                  "main builds one MasterOfPuppets and calls perform_matching exactly once")
        cl_calls = p.run.user.get("conf_logger", [])
        want = {"debug": "args.debug", "info": "args.info", "enable_log_to_file": "args.enable_logging_to_file",
                "enable_log_to_terminal": "args.enable_logging_to_terminal"}
        got = {k: Ic.expr_of(v) for k, v in (cl_calls[0].items() if cl_calls else [])}
        ctx.check(len(cl_calls) == 1 and got == want, "C20.L4.logger-configured-from-options", "start_configurations",
                  f"configure_logger({got})"[:160], "the logger is configured once, from the logging options as given")
        if len(inits) != 1:
            continue
        a, k = inits[0]
        mc = k.get("match_config", a[0] if a else None)
        if not isinstance(mc, Obj):
            ctx.fail("C20.L2.option-plumbing", "main", f"match_config={mc!r}", "MatchConfig object expected")
            continue
        f = mc.fields
        asm = p.assumptions.get(("truth", "u", "args.assembly"))
        allm = p.assumptions.get(("truth", "u", "args.all_matches"))
        ex = lambda v: Ic.expr_of(v)
        want_file = "args.assembly" if asm else "args.binary"
        want_type = "assembly" if asm else "binary"
        rows = [
            ("pattern_pathstr", ex(f.get("pattern_pathstr")) == "args.pattern"),
            ("input_file", ex(f.get("input_file")) == want_file),
            ("input_file_type", isinstance(f.get("input_file_type"), EnumV) and f["input_file_type"].member == want_type),
            ("matching_mode", isinstance(f.get("matching_mode"), EnumV) and f["matching_mode"].member == ("all_finds" if allm else "first_find")),
            ("return_only_address", ex(f.get("return_only_address")) == "args.return_only_address"),
            ("macros", ex(f.get("macros")) == "args.macros"),
        ]
        for name, ok in rows:
            ctx.check(ok, "C20.L2.option-plumbing", "main", f"{name}={ex(f.get(name))} (assembly given={asm}, all_matches={allm})",
                      f"MatchConfig.{name} is the command-line value, unmodified")
    # L5 failure propagates
    def failing(I, func, self_val, args, kwargs, node, fr):
        I.raise_exc("BinaryFileFormatNotSupported", [Str.lit("boom")], node, fr)
    for exc_name in ("BinaryFileFormatNotSupported", "ValueError", "FileNotFoundError"):
        def failing(I, func, self_val, args, kwargs, node, fr, exc_name=exc_name):
            I.raise_exc(exc_name, [Str.lit("boom")], node, fr)
        If = make_interp(ctx.p, {**base, "MasterOfPuppets.perform_matching": failing,
                                 "parse_args_from_console": lambda I, f, s, a, k, n, fr: Unknown("args", {"truthy": True, "expr": "args"}),
                                 "configure_logger": lambda I, f, s, a, k, n, fr: NONE})
        fp = If.explore(lambda I: I.call_func(mainf, [], {}, None, None, None))
        reached = [p for p in fp if any(e.kind == "raise" and e.exc.type_name == exc_name for e in p.events)]
        bad = [p for p in reached if p.kind == "return"]
        ctx.check(bool(reached) and not bad, "C20.L5.failures-exit-nonzero", "main", f"{exc_name} swallowed on {len(bad)} path(s)",
                  f"a {exc_name} from the operation leaves main() as an exception (non-zero exit status)")
    pyproj = (ctx.p.root / "pyproject.toml")
    txt = pyproj.read_text() if pyproj.exists() else ""
    ctx.check(re.search(r"^\s*jasm\s*=\s*[\"']jasm\.main:main[\"']", txt, re.M) is not None, "C20.L5.failures-exit-nonzero",
              "pyproject.toml", "console script", "the console script `jasm` is jasm.main:main")
    # L4 log lines
    for p in observer_two_reports(I):
        logs = [e for e in p.events if e.kind == "call_unknown" and e.target.endswith(".info")]
        texts = [(e.args[0].text() if isinstance(e.args[0], Str) and e.args[0].is_concrete() else "?", [I.expr_of(a) for a in e.args[1:]]) for e in logs if e.args]
        ok = [t for t in texts if t[0].startswith("Matched address")] == [("Matched address: %s", ["hit_a"]), ("Matched address: %s", ["hit_b"])]
        ctx.check(ok, "C20.L4.log-lines", "MatchedObserver.regex_matched", str(texts)[:160],
                  "one 'Matched address: <hit>' INFO line per reported hit, in order, carrying the appended value")
    mo = ctx.p.find_class("MatchedObserver")
    for val, want in ((True, "RESULT: Pattern found"), (False, "RESULT: Pattern not found")):
        def thunk(I, val=val):
            o = I.construct(mo, [], {}, None, None)
            I.set_attr(o, "matched", BoolV(val), None, None)
            return I.call_func(mo.find_method("finalize"), [], {}, o, None, None)
        for p in I.explore(thunk):
            texts = [_info_text(e) for e in p.events if e.kind == "call_unknown" and e.target.endswith(".info") and e.args]
            ctx.check(texts == [want], "C20.L4.log-lines", "MatchedObserver.finalize", f"matched={val}: {texts}",
                      f"finalize logs exactly '{want}' when matched is {val}")
    Im = match_interp(ctx.p)
    for s in match_scenarios(Im, return_modes=("bool",), configs=({},)):
        if s.path.kind != "return":
            continue
        fins = [i for i, e in enumerate(s.path.events) if e.kind == "enter" and e.func == "MatchedObserver.finalize"]
        scans = [i for i, e in enumerate(s.path.events) if e.kind == "extern_call" and e.name.startswith("regex.")]
        reps = [i for i, e in enumerate(s.path.events) if e.kind == "enter" and e.func == "MatchedObserver.regex_matched"]
        ok = len(fins) == 1 and scans and fins[0] > max(scans + reps)
        ctx.check(ok, "C20.L4.finalize-reached", f"perform_matching[{s.cfg['file_type']},{s.cfg['search_mode']}]",
                  f"finalize calls={len(fins)} scans={len(scans)}",
                  "the RESULT line is produced exactly once, after the scan and after every hit was reported")
    # L7: the logged RESULT line and the boolean the API returns are the same verdict on every path
    for s in match_scenarios(Im, return_modes=("bool",), configs=({},)):
        if s.path.kind != "return":
            continue
        texts = [t for t in (_info_text(e) for e in s.path.events if e.kind == "call_unknown" and e.target.endswith(".info") and e.args)
                 if t.startswith("RESULT")]
        v = s.path.value
        ok = len(texts) == 1 and isinstance(v, BoolV) and (texts[0] == "RESULT: Pattern found") == v.v and \
            texts[0] in ("RESULT: Pattern found", "RESULT: Pattern not found")
        ctx.check(ok, "C20.L7.result-line-equals-returned-verdict", f"perform_matching[{s.cfg['file_type']},{s.cfg['search_mode']},only_addr={s.cfg['only_addr']}]",
                  f"logged {texts} but returns {Im.expr_of(v)}"[:200],
                  "the RESULT line says 'found' exactly on the paths that return True")
    # L6: main() always asks for the boolean result, the API user for the list: scan and reported hits must be the same
    # in both return modes, path for path (what is logged under bool mode is what the list mode returns)
    import re as _re

    def _sig(s):
        calls = tuple((e.name, tuple(sorted((k, _re.sub(r"#\d+", "", Im.expr_of(v))) for k, v in e.kwargs.items())), len(e.args))
                      for e in s.path.events if e.kind == "extern_call" and e.name.startswith("regex."))
        reps = tuple(_re.sub(r"#\d+", "", Im.expr_of([v for k, v in e.frame.locals.items() if k != "self"][0]))
                     for e in s.path.events if e.kind == "enter" and e.func == "MatchedObserver.regex_matched")
        conds = tuple(sorted(_re.sub(r"#\d+", "", l) for l in s.path.cond_labels()))
        return (s.path.kind, calls, reps, conds)
    by = {}
    for s in match_scenarios(Im, return_modes=("bool", "matched_addrs_list"), configs=({},)):
        by.setdefault((s.cfg["file_type"], s.cfg["search_mode"], s.cfg["only_addr"]), {}).setdefault(s.cfg["return_mode"], set()).add(_sig(s))
    for key, d in sorted(by.items()):
        a, b = d.get("bool", set()), d.get("matched_addrs_list", set())
        diff = sorted(a ^ b, key=str)
        ctx.check(not diff and bool(a), "C20.L6.hits-independent-of-return-mode", f"perform_matching[{key[0]},{key[1]},only_addr={key[2]}]",
                  (("only under bool: " if diff and diff[0] in a else "only under list: ") + str(diff[0][2:]) if diff else "")[:260],
                  "the boolean-mode operation (what main() runs) searches and reports exactly like the list-mode operation")
    # INFO level by default
    cl = ctx.p.find_func("configure_logger")
    def thunk2(I):
        return I.call_func(cl, [], {"debug": BoolV(False), "info": BoolV(True), "enable_log_to_file": BoolV(False),
                                    "enable_log_to_terminal": BoolV(True)}, None, None, None)
    for p in I.explore(thunk2):
        last = {}
        for e in p.events:
            if e.kind == "call_unknown" and e.target.endswith(".setLevel") and e.args:
                last[e.target[:-len(".setLevel")]] = I.expr_of(e.args[0])     # the level in force is the last one set on that object
        lv = [f"{k.split('#')[0]}={v}" for k, v in last.items()]
        ok = bool(last) and all("INFO" in v for v in last.values())
        ctx.check(ok, "C20.L4.info-enabled", "configure_logger", str(lv)[:120], "with the defaults the logger and the terminal handler are at INFO")
