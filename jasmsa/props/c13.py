"""C13 -- macro expansion is equivalent to manual inlining."""
from ..matchflow import load_file_summary
from ..models import Sym, lift_skeleton, make_interp
from ..values import NONE, DictV, Hole, IntV, ListV, Obj, Str, TupleV, Value

FLOORS = {"C13.M6.one-loader-for-every-file": 1, "C13.M8.expansion-equals-inlining": 14, "C13.M2.fresh-copy-before-substitution": 2,
          "C13.M1.definition-unaltered": 4, "C13.M5.extra-files-prepended-fresh": 1, "C13.M3.arguments-from-call-node": 2, "C13.M9.compiles-to-the-same-regex": 14}


def same_tree(a: Value, b: Value) -> bool:
    if isinstance(a, Str) and isinstance(b, Str):
        return a.render() == b.render()
    if isinstance(a, IntV) and isinstance(b, IntV):
        return a.v == b.v
    if isinstance(a, (ListV, TupleV)) and isinstance(b, (ListV, TupleV)):
        return len(a.items) == len(b.items) and all(same_tree(x, y) for x, y in zip(a.items, b.items))
    if isinstance(a, DictV) and isinstance(b, DictV):
        return len(a.pairs) == len(b.pairs) and all(same_tree(k1, k2) and same_tree(v1, v2)
                                                    for (k1, v1), (k2, v2) in zip(a.pairs, b.pairs))
    return a is b or repr(a) == repr(b)


S = Sym
ANY = {"name": "@any", "pattern": "[^,| ]{1,1000}"}
NOPM = {"name": "@m", "pattern": S("BODY")}
SHIFT = {"name": "@shift", "pattern": [{"$or": [S("SHL"), S("SHR")]}]}
ZERO = {"name": "@zero", "args": ["reg"], "pattern": [{"$or": [{"xor": ["reg", "reg"]}, {"mov": ["reg", 0]},
                                                          {"$or": [{"and": ["reg", 0]}, {"and": [0, "reg"]}]}]}]}
DER = {"name": "@slot", "args": ["base", "off"], "pattern": [{"mov": [{"$deref": {"main_reg": "base", "constant_offset": "off"}}, S("DST")]}]}
OUTER = {"name": "@outer", "pattern": [{"$and": ["@shift", {"mov": ["@m"]}]}]}


def zero(r):
    return {"$or": [{"xor": [r, r]}, {"mov": [r, 0]}, {"$or": [{"and": [r, 0]}, {"and": [0, r]}]}]}


SHAPES = [
    # (label, macros, pattern with macros, manually inlined pattern)
    ("string macro as item", [NOPM], ["@m", S("X")], [S("BODY"), S("X")]),
    ("string macro as operand and dict value", [NOPM], [{S("M"): ["@m", {"$deref": {"main_reg": "@m"}}]}],
     [{S("M"): [S("BODY"), {"$deref": {"main_reg": S("BODY")}}]}]),
    ("string macro with a times body", [NOPM], [{"@m": {"times": 2}}, S("X")], [{S("BODY"): {"times": 2}}, S("X")]),
    ("string macro inside names", [ANY], [{S("M"): ["%r@any", "@any"]}], [{S("M"): ["%r[^,| ]{1,1000}", "[^,| ]{1,1000}"]}]),
    ("block macro as item, used twice", [SHIFT], ["@shift", S("X"), "@shift"],
     [{"$or": [S("SHL"), S("SHR")]}, S("X"), {"$or": [S("SHL"), S("SHR")]}]),
    ("block macro under operators", [SHIFT], [{"$not": ["@shift"]}, {"$and_any_order": ["@shift", S("X")]}],
     [{"$not": [{"$or": [S("SHL"), S("SHR")]}]}, {"$and_any_order": [{"$or": [S("SHL"), S("SHR")]}, S("X")]}]),
    ("parameterised macro, two different arguments", [ZERO], [{"@zero": {"reg": S("R1")}}, S("X"), {"@zero": {"reg": S("R2")}}],
     [zero(S("R1")), S("X"), zero(S("R2"))]),
    ("parameterised macro, same argument twice", [ZERO], [{"@zero": {"reg": S("R1")}}, {"@zero": {"reg": S("R1")}}],
     [zero(S("R1")), zero(S("R1"))]),
    ("parameterised macro, three uses interleaved", [ZERO], [{"@zero": {"reg": "rax"}}, {"@zero": {"reg": "rbx"}}, {"@zero": {"reg": "rax"}}],
     [zero("rax"), zero("rbx"), zero("rax")]),
    ("two parameters, argument in a dict value", [DER], [{"@slot": {"base": S("B1"), "off": S("K1")}}, {"@slot": {"base": S("B2"), "off": S("K2")}}],
     [{"mov": [{"$deref": {"main_reg": S("B1"), "constant_offset": S("K1")}}, S("DST")]},
      {"mov": [{"$deref": {"main_reg": S("B2"), "constant_offset": S("K2")}}, S("DST")]}]),
    ("macro whose body uses macros listed after it", [OUTER, SHIFT, NOPM], ["@outer", "@m"],
     [{"$and": [{"$or": [S("SHL"), S("SHR")]}, {"mov": [S("BODY")]}]}, S("BODY")]),
    ("outer macro used twice", [OUTER, SHIFT, NOPM], ["@outer", S("X"), "@outer"],
     [{"$and": [{"$or": [S("SHL"), S("SHR")]}, {"mov": [S("BODY")]}]}, S("X"),
      {"$and": [{"$or": [S("SHL"), S("SHR")]}, {"mov": [S("BODY")]}]}]),
    ("mix of all kinds", [OUTER, ZERO, SHIFT, NOPM, ANY],
     [{"@zero": {"reg": S("R")}}, "@outer", {S("M"): ["@any", "@m"]}, {"@m": {"times": 3}}],
     [zero(S("R")), {"$and": [{"$or": [S("SHL"), S("SHR")]}, {"mov": [S("BODY")]}]}, {S("M"): ["[^,| ]{1,1000}", S("BODY")]},
      {S("BODY"): {"times": 3}}]),
    ("no use of the defined macros", [SHIFT, ZERO], [S("X"), {S("M"): [S("O")]}], [S("X"), {S("M"): [S("O")]}]),
    ("parameterised macro called with nested argument spelling", [ZERO], [{"@zero": {"reg": S("R1")}}, {"@zero": {"reg": S("R2")}}],
     [zero(S("R1")), zero(S("R2"))]),
    ("string macros used only inside longer names", [{"name": "@cc", "pattern": "ne"}, {"name": "@hi", "pattern": "1[0-5]"}],
     [{"j@cc": ["%r@hi"]}, "set@cc", {S("M"): [{"$deref": {"main_reg": "%r@hi"}}]}],
     [{"jne": ["%r1[0-5]"]}, "setne", {S("M"): [{"$deref": {"main_reg": "%r1[0-5]"}}]}]),
    ("parameterised macro called with falsy arguments", [{"name": "@ld", "args": ["value", "reg", "tag"], "pattern": [{"$and": [
        {"mov": ["value", "reg"]}, {"add": ["tag", "reg"]}]}]}],
     [{"@ld": {"value": 0, "reg": S("R1"), "tag": ""}}, {"@ld": {"value": "0x0", "reg": S("R2"), "tag": False}}],
     [{"$and": [{"mov": [0, S("R1")]}, {"add": ["", S("R1")]}]}, {"$and": [{"mov": ["0x0", S("R2")]}, {"add": [False, S("R2")]}]}]),
    ("block macro used twice, only one use with times", [SHIFT], [{"@shift": {"times": 2}}, S("X"), "@shift", {"@shift": {"times": 3}}],
     [{"$or": [S("SHL"), S("SHR")], "times": 2}, S("X"), {"$or": [S("SHL"), S("SHR")]}, {"$or": [S("SHL"), S("SHR")], "times": 3}]),
    ("block macro used plainly first, then with times", [SHIFT], ["@shift", {"@shift": None, "times": 2}, "@shift"],
     [{"$or": [S("SHL"), S("SHR")]}, {"$or": [S("SHL"), S("SHR")], "times": 2}, {"$or": [S("SHL"), S("SHR")]}]),
    ("string macro referred to twice inside one name", [{"name": "@h", "pattern": "[0-9a-f]"}, {"name": "@l", "pattern": "l"}],
     [{S("M"): ["0x@h@h", "@h@h"]}, {"cmov@l@l": [S("O")]}, "j@l@l"],
     [{S("M"): ["0x[0-9a-f][0-9a-f]", "[0-9a-f][0-9a-f]"]}, {"cmovll": [S("O")]}, "jll"]),
    ("string macro in a key name and again below that key", [{"name": "@s", "pattern": "b"}],
     [{"movz@sl": ["%@sl", {"$deref": {"main_reg": "%r@sx"}}]}, {"j@s": {"times": 2}}],
     [{"movzbl": ["%bl", {"$deref": {"main_reg": "%rbx"}}]}, {"jb": {"times": 2}}]),
    ("string macro in a key name that has a sibling times", [{"name": "@cc", "pattern": "ne"}],
     [{"j@cc": [S("O")], "times": {"min": 2, "max": 3}}, {"set@cc": [S("Q")], "times": 2}],
     [{"jne": [S("O")], "times": {"min": 2, "max": 3}}, {"setne": [S("Q")], "times": 2}]),
    ("block macro used with a times body", [SHIFT], [{"@shift": {"times": 2}}, S("X")],
     [{"$or": [S("SHL"), S("SHR")], "times": 2}, S("X")]),
    ("block macro used with a sibling times", [SHIFT], [{"@shift": None, "times": {"min": 0, "max": 3}}, S("X")],
     [{"$or": [S("SHL"), S("SHR")], "times": {"min": 0, "max": 3}}, S("X")]),
    ("parameterised macro used with a sibling times", [ZERO], [{"@zero": {"reg": S("R1")}, "times": 2}, S("X")],
     [dict(zero(S("R1")), times=2), S("X")]),
    ("block macro whose body is a bare name, used with a times body", [{"name": "@one", "pattern": [S("BODY")]}],
     [{"@one": {"times": 3}}], [{S("BODY"): {"times": 3}}]),
    ("formal parameter names that occur inside other names of the body",
     [{"name": "@emb", "args": ["reg", "r", "0"], "pattern": [{"$and": [
         {"xor": ["reg", "&genreg.64"]}, {"mov": ["r", "%reg", "reg.32"]},
         {"or": ["0", "0x10", {"$deref": {"main_reg": "r", "constant_offset": "0x0"}}]}]}]}],
     [{"@emb": {"reg": "rdi", "r": 7, "0": S("Z")}}],
     [{"$and": [{"xor": ["rdi", "&genreg.64"]}, {"mov": [7, "%reg", "reg.32"]},
                {"or": [S("Z"), "0x10", {"$deref": {"main_reg": 7, "constant_offset": "0x0"}}]}]}]),
    ("parameterised macro whose argument is a list value", [{"name": "@two", "args": ["ops"], "pattern": [{S("MM"): "ops"}]}],
     [{"@two": {"ops": [S("A1"), S("A2")]}}, {"@two": {"ops": [S("A3")]}}], [{S("MM"): [S("A1"), S("A2")]}, {S("MM"): [S("A3")]}]),
]


def compiled_regexes(I, program, doc):
    """every (flag setting, outcome) of compiling the rule document through the real pipeline"""
    y2r = program.find_class("Yaml2Regex")

    def thunk(I):
        from ..models import new_yaml2regex
        so = new_yaml2regex(I, lift_skeleton(I, doc))
        pats = I.call_func(y2r.find_method("_get_pattern"), [], {}, so, None, None)
        from ..models import rule_tree_call
        tree = rule_tree_call(I, y2r, so, pats)
        return I.call_func(tree.cls.find_method("get_regex"), [], {}, tree, None, None)
    out = set()
    for p in I.explore(thunk):
        fl = (p.assumed(("truth", "b", "cfg[MnemonicsFullMatch]")), p.assumed(("truth", "b", "cfg[OperandsFullMatch]")))
        out.add((fl, p.kind, I.expr_of(p.value) if p.kind == "return" else repr(p.exc)[:80]))
    return out


TIMED_TWICE = [("block macro with sibling times used twice", [{"name": "@rep", "pattern": [{"$or": [S("A"), S("B")], "times": 2}]}],
                ["@rep", S("X"), "@rep"], [{"$or": [S("A"), S("B")], "times": 2}, S("X"), {"$or": [S("A"), S("B")], "times": 2}]),
               ("block macro with a timed mnemonic used twice", [{"name": "@pp", "pattern": [{S("P"): [S("O")], "times": {"min": 1, "max": 3}}]}],
                ["@pp", "@pp"], [{S("P"): [S("O")], "times": {"min": 1, "max": 3}}, {S("P"): [S("O")], "times": {"min": 1, "max": 3}}])]


def run(ctx) -> None:
    ctx.explanation = (
        "MacroExpander.resolve_all_macros (with MacroArgsResolver / ArgsMappingGenerator, generators evaluated "
        "eagerly) and Yaml2Regex._get_pattern are interpreted abstractly on rule skeletons - concrete tree shapes whose "
        "leaf names and macro bodies are abstract - covering every supported use form: string macros as item / operand "
        "/ dict value / inside a name / with a times body, block macros (also under operators, used repeatedly), "
        "parameterised macros with one and two parameters used several times with the same and with different "
        "arguments, macros whose body uses macros listed after them, definitions split between the rule file and "
        "extra macro files. The expanded tree must be structurally identical to the manually inlined tree on every "
        "path; parameterised definitions must be unaltered afterwards; the object handed to argument substitution "
        "must be a fresh deep copy and the arguments must come from the call node; extra macro files are loaded "
        "afresh, once each, and prepended in the order given.")
    ctx.assumptions += ["macro names not contained in one another; a macro is listed before the macros its body refers to "
                        "(the property's quantifier)"]
    ctx.analysed_fn("MacroExpander.resolve_all_macros", "MacroExpander._apply_macro_to_tree",
                    "MacroExpander._apply_macro_to_tree_substring", "MacroExpander._resolve_local_macro",
                    "MacroArgsResolver.resolve", "MacroArgsResolver._evaluate_args_in_macro",
                    "ArgsMappingGenerator.get_args_mapping_dict", "Yaml2Regex._get_pattern", "Yaml2Regex.load_macros_from_args")
    I = make_interp(ctx.p)
    me = ctx.p.find_class("MacroExpander")
    y2r = ctx.p.find_class("Yaml2Regex")
    for label, macros, pattern, inlined in SHAPES:
        def thunk(I, macros=macros, pattern=pattern):
            o = I.construct(me, [], {}, None, None)
            ms = lift_skeleton(I, macros)
            I.run.user["macros"] = ms
            return I.call_func(me.find_method("resolve_all_macros"), [], {
                "macros": ms, "pattern_tree": lift_skeleton(I, {"$and": pattern})}, o, None, None)
        paths = I.explore(thunk)
        want = lift_skeleton(I, {"$and": inlined})
        for p in paths:
            if p.kind != "return":
                ctx.fail("C13.M8.expansion-equals-inlining", f"resolve_all_macros[{label}]", f"raises {p.exc!r}"[:120],
                         f"a supported use form ({label}) fails to expand")
                continue
            ctx.check(same_tree(p.value, want), "C13.M8.expansion-equals-inlining", f"resolve_all_macros[{label}]",
                      f"got {p.value!r}"[:260], f"expanded tree == manually inlined tree ({label})")
            pristine = lift_skeleton(I, macros)
            after = p.run.user["macros"]
            for m0, m1 in zip(pristine.items, after.items):
                if any(isinstance(k, Str) and k.render() == "args" for k, _ in m0.pairs):
                    ctx.check(same_tree(m0, m1), "C13.M1.definition-unaltered", f"resolve_all_macros[{label}]",
                              f"definition became {m1!r}"[:200], "a parameterised macro definition is not altered by being used")
            # M2 / M3 from the events of this path
            for e in p.events:
                if e.kind == "enter" and e.func == "MacroArgsResolver.resolve":
                    mac = e.frame.locals.get("macro")
                    fresh = all(mac is not m1 for m1 in after.items)
                    ctx.check(fresh, "C13.M2.fresh-copy-before-substitution", "MacroExpander._resolve_local_macro",
                              "the definition object itself is substituted into", "argument substitution works on a fresh deep copy")
                if e.kind == "enter" and e.func == "ArgsMappingGenerator.get_args_mapping_dict":
                    tree = e.frame.locals.get("tree")
                    keys = [k.render() if isinstance(k, Str) else repr(k) for k, _ in tree.pairs] if isinstance(tree, DictV) else []
                    # the call node: the macro's name as key, at most a sibling `times`
                    ok = isinstance(tree, DictV) and len([k for k in keys if k.startswith("@")]) == 1 and \
                        all(k.startswith("@") or k == "times" for k in keys)
                    ctx.check(ok, "C13.M3.arguments-from-call-node", "MacroExpander._resolve_local_macro",
                              f"arguments looked up in {tree!r}"[:120], "the argument values are looked up inside the call node only")
    from ._matchrules import one_yaml_loader
    one_yaml_loader(ctx, "C13.M6.one-loader-for-every-file")
    from ._matchrules import macro_files_reach_the_compiler
    macro_files_reach_the_compiler(ctx, "C13.M7.extra-files-reach-the-compiler")
    # thorough: every way of factoring one part of a base rule into a macro
    if ctx.tier == "thorough":
        from ..treegen import BASES, positions, replace_at
        n = 0
        for blabel, base in BASES:
            for path, kind, val in positions(base):
                if kind == "key":
                    continue
                if kind == "subtree":
                    macro = {"name": "@f", "pattern": [val]}
                else:
                    macro = {"name": "@f", "pattern": val}
                factored = replace_at(base, path, "@f")
                for extra in ([], [{"name": "@unused", "pattern": "zzz"}]):
                    def thunkf(I, macros=[macro] + extra, pattern=factored):
                        o = I.construct(me, [], {}, None, None)
                        return I.call_func(me.find_method("resolve_all_macros"), [], {
                            "macros": lift_skeleton(I, macros), "pattern_tree": lift_skeleton(I, {"$and": pattern})}, o, None, None)
                    want = lift_skeleton(I, {"$and": base})
                    for p in I.explore(thunkf):
                        n += 1
                        ok = p.kind == "return" and same_tree(p.value, want)
                        ctx.check(ok, "C13.M8.factoring-equals-original", f"resolve_all_macros[{blabel}: {kind} at {path}]"[:120],
                                  (repr(p.value) if p.kind == "return" else repr(p.exc))[:200],
                                  "factoring any single item, value or subtree of a rule into a macro and expanding gives the rule back")
        ctx.extra["factorings"] = n
    # M9: the rule with macros compiles to the same regex as the inlined rule (all 4 flag settings)
    def compiled(doc):
        return compiled_regexes(I, ctx.p, doc)
    twice = TIMED_TWICE
    for label, macros, pattern, inlined in [(a, b, c, d) for a, b, c, d in SHAPES] + twice:
        with_m = compiled({"macros": macros, "pattern": pattern})
        manual = compiled({"pattern": inlined})
        if not any(k == "return" for _, k, _ in manual):
            from ..facts import AnalysisError
            raise AnalysisError(f"C13 shape '{label}': the inlined rule compiles under no flag setting (the shape compares nothing)")
        diff = sorted(with_m ^ manual, key=str)
        ctx.check(not diff, "C13.M9.compiles-to-the-same-regex", f"produce_regex[{label}]", (str(diff[0]) if diff else "")[:300],
                  f"the rule written with macros compiles to the same regex as the inlined rule ({label})")
    # M5 extra macro files: loaded afresh, once each, prepended in order
    from ..matchflow import YAML_SUMMARIES
    Is = make_interp(ctx.p, dict(YAML_SUMMARIES))
    captured = {}

    def s_resolve(I, func, self_val, args, kwargs, node, fr):
        I.run.user["resolve_macros"] = kwargs.get("macros", args[0] if args else None)
        return kwargs.get("pattern_tree", args[1] if len(args) > 1 else NONE)
    Is.summaries["MacroExpander.resolve_all_macros"] = s_resolve

    def thunk5(I):
        I.run.user["docs"] = {"<F2>": {"macros": [{"name": "@b", "pattern": "b"}]},
                              "<F1>": {"macros": [{"name": "@a", "pattern": "a"}, {"name": "@a2", "pattern": "a2"}]}}
        from ..models import new_yaml2regex
        so = new_yaml2regex(I, lift_skeleton(I, {"macros": [{"name": "@r", "pattern": "r"}],
                                                    "pattern": ["@r", "@a", "j@b", {"set@a2": [S("O")]}]}),
                            ListV([Str((Hole("F2", "path", True),)), Str((Hole("F1", "path", True),))]))
        for _ in range(2):
            I.call_func(y2r.find_method("_get_pattern"), [], {}, so, None, None)
            I.run.user.setdefault("seen", []).append(I.run.user.get("resolve_macros"))
        return NONE
    for p in Is.explore(thunk5):
        if p.kind != "return":
            ctx.fail("C13.M5.extra-files-prepended-fresh", "Yaml2Regex._get_pattern", f"raises {p.exc!r}"[:100], "raises")
            continue
        seen = p.run.user.get("seen", [])
        names = [[m.pairs[0][1].render() for m in s.items] if isinstance(s, ListV) else repr(s) for s in seen]
        loads = [Is.expr_of(e.file) for e in p.events if e.kind == "load_file" and Is.expr_of(e.file) in ("<F1>", "<F2>")]
        fresh = len(seen) == 2 and isinstance(seen[0], ListV) and isinstance(seen[1], ListV) and all(
            a is not b for a, b in zip(seen[0].items[:3], seen[1].items[:3]))
        ok = names == [["@b", "@a", "@a2", "@r"]] * 2 and loads == ["<F2>", "<F1>"] * 2 and fresh
        ctx.check(ok, "C13.M5.extra-files-prepended-fresh", "Yaml2Regex.load_macros_from_args",
                  f"macros={names} loads={loads} fresh={fresh}"[:200],
                  "extra macro files are read once per compilation each, in the order given, and prepended to the rule's macros")
