"""C18 -- valid_addr_range tags exactly the direct calls/jumps that land in the range."""
import re

from ..facts import AnalysisError
from ..cfgflow import load_config_paths, sets_of
from ..matchflow import match_interp, match_scenarios
from ..models import make_interp
from ..values import NONE, AbsList, BoolV, Hole, ListV, Obj, Str, SymBool, Unknown

FLOORS = {"C18.V9.bounds-by-name": 2, "C18.V1.inclusive-numeric-comparison": 2, "C18.V3.guard-structure": 10, "C18.V4.rewrite-shape": 2,
          "C18.V5.installed-iff-configured": 4, "C18.V6.observers-before-stringify": 1}


def run(ctx) -> None:
    ctx.explanation = (
        "ValidAddrObserver.observe_instruction is interpreted on abstract instructions (mnemonic call / jmp / jne / a "
        "non-branch / an opaque mnemonic; operand lists [], [T], [T,x], [*%reg]) with a ValidAddrRange built by the "
        "real constructors from opaque min/max strings. On every path: a rewritten instruction is returned only under "
        "first-operand-exists, mnemonic in the branch list, no '*' in the target, min<=T and T<=max - both comparisons "
        "'<=' on integers parsed base 16 by the one normaliser (HexType) that strips exactly an optional leading 0x; "
        "every other path returns the very same instruction object; the rewrite keeps address and mnemonic and has the "
        "single operand 'valid_addr'; no path returns None. Plus: the observer is installed iff the rule configures "
        "a range (interpreting config loading and prepare_observers for both cases), observers run before "
        "stringification.")
    ctx.assumptions += ["direct branch targets are printed as bare hex (C09)", "the literal mnemonic list covers the spellings in use"]
    ctx.analysed_fn("ValidAddrObserver.observe_instruction", "ValidAddrRange.is_in_range", "HexType.__init__",
                    "MasterOfPuppets.prepare_observers", "JASMConfig._load_valid_addr_range",
                    "InstructionObserverConsumer._process_instruction")
    I = make_interp(ctx.p)
    vo = ctx.p.find_class("ValidAddrObserver")
    vr = ctx.p.find_class("ValidAddrRange")
    ins = ctx.p.find_class("Instruction")
    T = Str((Hole("T", "target", True),))
    cases = []
    for mn in ("call", "jmp", "jne", "mov", None):
        for ops in ("none", "T", "T,x", "star"):
            cases.append((mn, ops))
    cmp_tags = set()
    tagged_mnemonics = set()
    n_rewrite = 0
    case_rewrites = {}
    for mn, ops in cases:
        def thunk(I, mn=mn, ops=ops):
            rng = I.construct(vr, [], {"min_addr": Str((Hole("MIN", "bound", True),)),
                                       "max_addr": Str((Hole("MAX", "bound", True),))}, None, None)
            o = I.construct(vo, [rng], {}, None, None)
            opl = {"none": [], "T": [T], "T,x": [T, Str((Hole("X", "operand", True),))],
                   "star": [Str.lit("*%rax")]}[ops]
            inst = I.construct(ins, [], {"addr": Str((Hole("ADDR", "f", True),)),
                                         "mnemonic": Str.lit(mn) if mn else Str((Hole("MN", "f", True, lambda op, a: None),)),
                                         "operands": ListV(list(opl))}, None, None)
            I.run.user["inst"] = inst
            return I.call_func(vo.find_method("observe_instruction"), [inst], {}, o, None, None)
        construct = f"ValidAddrObserver.observe_instruction[{mn or '<any>'};{ops}]"
        for p in I.explore(thunk):
            inst = p.run.user.get("inst")
            if p.kind != "return":
                # only int() of a non-hex *direct* target may raise (outside the property); an indirect branch or an
                # operand-less instruction must pass through untouched
                if ops in ("star", "none"):
                    ctx.fail("C18.V3.guard-structure", construct, f"raises {p.exc.type_name} on an instruction it must pass through",
                             "indirect branches and operand-less instructions pass through the observer unchanged")
                continue
            v = p.value
            conds = {str(k): val for k, val, _ in p.conds}
            cmps = [(k, val) for k, val, _ in p.conds if isinstance(k, tuple) and k[0] == "truth" and k[1] == "b"
                    and ("<" in str(k[2]).replace("<MIN", "").replace("<MAX", "").replace("<T", "") or ">=" in str(k[2]) or
                         ")>" in str(k[2]))]
            if v is inst:
                # identity: must not be a path where every guard held
                lo_ok = [val for k, val in cmps]
                all_hold = (ops in ("T", "T,x") and mn in ("call", "jmp") and len(lo_ok) == 2 and all(lo_ok)
                            and not any(val for k, val, _ in p.conds if isinstance(k, tuple) and k[0] == "in" and "'*'" in str(k)))
                ctx.check(not all_hold, "C18.V3.guard-structure", construct, "in-range direct branch left untagged",
                          "an in-range direct call/jmp is tagged")
                continue
            if v is NONE:
                ctx.fail("C18.V4.rewrite-shape", construct, "returns None", "no path may drop the instruction")
                continue
            n_rewrite += 1
            case_rewrites[(mn, ops)] = case_rewrites.get((mn, ops), 0) + 1
            if mn is None:
                # the mnemonic was abstract: which concrete mnemonics does this rewriting path stand for?
                import re as _re2
                for k, val, _ in p.conds:
                    if isinstance(k, tuple) and k[0] == "in" and "<MN>" in str(k[1]) and val:
                        # MN in (<table>): the table's elements are part of the condition's key
                        tagged_mnemonics.update(_re2.findall(r"S'([^']+)'", str(k[2])))
                    m2 = _re2.search(r"\('s', '([^']+)'\)", str(k)) if isinstance(k, tuple) and k[0] == "eq" and "MN" in str(k) and val else None
                    if m2:
                        tagged_mnemonics.add(m2.group(1))
            star = [val for k, val, _ in p.conds if isinstance(k, tuple) and k[0] == "in" and "*" in str(k[1])]
            guards_ok = ops in ("T", "T,x") and mn != "mov" and len(cmps) == 2 and all(val for _, val in cmps) and \
                (not star or not any(star))
            for k, _ in cmps:
                cmp_tags.add(k[2])
            ctx.check(guards_ok, "C18.V3.guard-structure", construct,
                      f"rewritten under {[(str(k[2]), v_) for k, v_ in cmps]} star={star} ops={ops}"[:200],
                      "the rewrite happens only for (first operand exists) & branch mnemonic & no '*' & min<=T & T<=max")
            shape = isinstance(v, Obj) and v.cls.name == "Instruction" and v.fields.get("addr") is inst.fields["addr"] \
                and v.fields.get("mnemonic") is inst.fields["mnemonic"] and isinstance(v.fields.get("operands"), ListV) \
                and [x.text() if isinstance(x, Str) and x.is_concrete() else "?" for x in v.fields["operands"].items] == ["valid_addr"]
            ctx.check(shape, "C18.V4.rewrite-shape", construct, f"{v!r} {getattr(v, 'fields', '')}"[:160],
                      "the tagged instruction keeps address and mnemonic and has the single operand 'valid_addr'")
        if mn == "mov" or ops in ("none", "star"):
            ctx.ok("C18.V3.guard-structure", construct, "never rewritten")
        if mn in ("call", "jmp") and ops in ("T", "T,x"):
            ctx.check(case_rewrites.get((mn, ops), 0) > 0, "C18.V3.direct-branches-are-tagged", construct, "no tagging path",
                      f"a direct `{mn}` whose target lies in the range is tagged on some path")
    # V8: the mnemonics that get tagged are near branches, whose FIRST operand is the target (a far transfer - lcall,
    # ljmp - is printed `ljmp $selector,$offset`: its first operand is the selector), and call/jmp are among them
    NEAR = {"call", "callq", "callw", "calll", "jmp", "jmpq", "jmpw", "jmpl", "jrcxz", "jecxz", "jcxz", "loop", "loope", "loopne",
            "loopz", "loopnz"} | {"j" + c for c in ("a", "ae", "b", "be", "c", "e", "g", "ge", "l", "le", "na", "nae", "nb", "nbe",
                                                    "nc", "ne", "ng", "nge", "nl", "nle", "no", "np", "ns", "nz", "o", "p", "pe",
                                                    "po", "s", "z")}
    if not tagged_mnemonics:
        ctx.fail("C18.V8.tagged-mnemonics-are-near-branches", "ValidAddrObserver.observe_instruction", "no mnemonic comparison seen",
                 "the observer decides by comparing the mnemonic with a table of branch mnemonics")
    for mn_ in sorted(tagged_mnemonics):
        ctx.check(mn_ in NEAR, "C18.V8.tagged-mnemonics-are-near-branches", "ValidAddrObserver.observe_instruction",
                  f"{mn_!r} is tagged by its first operand", f"`{mn_}` is a near call/jump (its first operand is the target)")
    ctx.check({"call", "jmp"} <= tagged_mnemonics, "C18.V8.tagged-mnemonics-are-near-branches", "ValidAddrObserver.observe_instruction",
              f"call/jmp missing from {sorted(tagged_mnemonics)}"[:120], "call and jmp are tagged")
    # V7: the verdict is computed from this observer's own range on every call
    def thunk2(I):
        res = []
        for suffix in ("", "2"):
            rng = I.construct(vr, [], {"min_addr": Str((Hole("MIN" + suffix, "bound", True),)),
                                       "max_addr": Str((Hole("MAX" + suffix, "bound", True),))}, None, None)
            o = I.construct(vo, [rng], {}, None, None)
            inst = I.construct(ins, [], {"addr": Str((Hole("ADDR", "f", True),)), "mnemonic": Str.lit("call"),
                                         "operands": ListV([T])}, None, None)
            I.run.user["mark" + suffix] = len(I.run.conds)
            res.append((inst, I.call_func(vo.find_method("observe_instruction"), [inst], {}, o, None, None)))
        I.run.user["res"] = res
        return NONE
    for p in I.explore(thunk2):
        if p.kind != "return":
            continue
        mark = p.run.user["mark2"]
        later = [(k, val) for k, val, _ in p.conds[mark:] if isinstance(k, tuple) and k[0] == "truth" and "MIN2" in str(k) or
                 (isinstance(k, tuple) and k[0] == "truth" and "MAX2" in str(k))]
        star = any(val for k, val, _ in p.conds if isinstance(k, tuple) and k[0] == "in" and "*" in str(k[1]))
        inst2, out2 = p.run.user["res"][1]
        if star:
            continue
        if out2 is inst2:
            ok = any(not val for _, val in later)
        else:
            ok = len(later) == 2 and all(val for _, val in later)
        ctx.check(ok, "C18.V7.own-range-every-call", "ValidAddrObserver.observe_instruction (second observer, same target)",
                  f"second verdict {'identity' if out2 is inst2 else 'tagged'} decided by {[str(k[2])[:40] for k, _ in later]}"[:200],
                  "a second observer with another range decides the same target by its own bounds")
    if n_rewrite == 0:
        ctx.fail("C18.V3.guard-structure", "ValidAddrObserver.observe_instruction", "no rewriting path", "an in-range direct call is never tagged")
    # V1: the comparisons
    pat = re.compile(r"\(int\(<(MIN|T)(\.\[2:\])?>,16\)<=int\(<(T|MAX)(\.\[2:\])?>,16\)\)")
    bad = sorted(t for t in cmp_tags if not pat.fullmatch(t.replace(" ", "").replace("?", "")))
    lows = {t for t in cmp_tags if "MIN" in t}
    highs = {t for t in cmp_tags if "MAX" in t}
    ctx.check(not bad and lows and highs, "C18.V1.inclusive-numeric-comparison", "ValidAddrRange.is_in_range",
              ";".join(bad)[:200] or "no comparison seen",
              "in-range is int(min,16) <= int(T,16) and int(T,16) <= int(max,16), each value stripped of an optional 0x")
    both_spellings = any(".[2:]" in t for t in cmp_tags) and any(".[2:]" not in t for t in cmp_tags)
    ctx.check(both_spellings, "C18.V1.inclusive-numeric-comparison", "HexType.__init__", "0x-handling",
              "bounds and target are accepted with and without the 0x prefix")
    # V9: the bounds are the rule's `min` and `max` BY NAME: the range loaded from a config is the same whichever key the rule
    # file writes first (lower bound <- min, upper bound <- max)
    from ..models import lift_skeleton
    jc = ctx.p.find_class("JASMConfig")
    lc, gi = jc.find_method("load_config"), jc.find_method("get_info")
    if lc is None or gi is None:
        raise AnalysisError("anchor JASMConfig.load_config/get_info not found")
    for order in (("min", "max"), ("max", "min")):
        bounds = {"min": Str((Hole("MIN", "bound", True),)), "max": Str((Hole("MAX", "bound", True),))}

        def thunk9(I, order=order, bounds=bounds):
            from ..values import DictV
            doc = DictV([(Str.lit("valid_addr_range"), DictV([(Str.lit(k), bounds[k]) for k in order]))])
            cfg = I.construct(jc, [], {}, None, None)
            I.call_func(lc, [doc], {}, cfg, None, None)
            rng = I.call_func(gi, [Str.lit("valid_addr_range")], {}, cfg, None, None)
            if not isinstance(rng, Obj):
                I.run.user["not_loaded"] = repr(rng)
                return NONE
            m = rng.cls.find_method("is_in_range")
            if m is None:
                raise AnalysisError("anchor ValidAddrRange.is_in_range not found")
            return I.call_func(m, [T], {}, rng, None, None)
        tags = set()
        for p9 in I.explore(thunk9):
            if p9.kind == "return" and "not_loaded" in p9.run.user:
                ctx.fail("C18.V9.bounds-by-name", f"JASMConfig.load_config[{order[0]} written first]",
                         f"get_info gives {p9.run.user['not_loaded']}", "a configured valid_addr_range is loaded into the config")
                continue
            for k, val, _ in p9.conds:
                if isinstance(k, tuple) and k[0] == "truth" and k[1] == "b" and "<=" in str(k[2]):
                    tags.add(str(k[2]).replace(" ", "").replace("?", ""))
        lows = [t for t in tags if re.fullmatch(r"\(int\(<MIN(\.\[2:\])?>,16\)<=int\(<T(\.\[2:\])?>,16\)\)", t)]
        highs = [t for t in tags if re.fullmatch(r"\(int\(<T(\.\[2:\])?>,16\)<=int\(<MAX(\.\[2:\])?>,16\)\)", t)]
        other = sorted(tags - set(lows) - set(highs))
        ctx.check(bool(lows) and bool(highs) and not other, "C18.V9.bounds-by-name", f"JASMConfig.load_config[{order[0]} written first]",
                  f"comparisons {sorted(tags)}"[:220], "the lower bound is the rule's `min`, the upper bound its `max`, whatever the order of the keys")
    # V5 / V6 through the whole match flow
    Im = match_interp(ctx.p)
    sc = match_scenarios(Im, file_types=("assembly",), return_modes=("bool",), search_modes=("first_find",), only_addrs=(False,))
    for s in sc:
        if s.path.kind != "return":
            continue
        configured = "valid_addr_range" in s.cfg["config"]
        cons = [e.obj for e in s.path.events if e.kind == "construct" and e.cls == "CompleteConsumer"]
        obs = cons[-1].fields.get("instruction_observers") if cons else None
        from ..matchflow import observer_name, wrapped_observer
        names = [observer_name(o) for o in obs.items] if isinstance(obs, ListV) else []
        ok = ("ValidAddrObserver" in names) == configured
        ctx.check(ok, "C18.V5.installed-iff-configured", "MasterOfPuppets.prepare_observers",
                  f"configured={configured} observers={names}", "the tagging observer is installed iff the rule has valid_addr_range")
        if configured:
            calls = [e for e in s.path.events if e.kind == "extern_call" and e.name.startswith("regex.")]
            st = Im.expr_of(calls[-1].kwargs.get("string")) if calls else ""
            vo_objs = [w for w in map(wrapped_observer, obs.items) if isinstance(w, Obj) and w.cls.name == "ValidAddrObserver"] \
                if isinstance(obs, ListV) else []
            rng = vo_objs[0].fields.get("addr_range") if vo_objs else None
            rng_ok = isinstance(rng, Obj) and rng.cls.name == "ValidAddrRange"
            if st in ("", "''"):
                continue   # the only instruction was a byte-continuation pseudo instruction: nothing to stringify
            ctx.check("tagged(" in st, "C18.V6.observers-before-stringify", "InstructionObserverConsumer._process_instruction",
                      st[:120], "the searched record is the stringification of the observers' result")
            ctx.check(rng_ok, "C18.V5.installed-iff-configured", "ValidAddrObserver(range)", f"range={rng!r}",
                      "the observer gets the ValidAddrRange built from the rule's min/max")
