"""C05 -- capture groups bind consistently across a pattern."""
from ..tmplcheck import family_results, report

FLOORS = {"C05.Q.searched-stream-is-this-operations": 2, "C05.G1.census": 80, "C05.G3.registration-order-is-group-order": 80, "C05.G3.backref-number": 150,
          "C05.G4.operand-call": 20, "C05.G4.operand-reference": 15, "C05.G4.instr-reference": 4,
          "C05.G4.instr-call": 4, "C05.G5.reference-table": 60, "C05.G5.call-table": 100}


def run(ctx) -> None:
    ctx.explanation = (
        "Skeletons with capture names at instruction, operand and deref-field level, several names in different "
        "orders of first use, later occurrences under $or/$not/$and_any_order, and every register family x width "
        "suffix (documented spellings .64 .32 .16 .8H .8L and none) as first and as later occurrence. Judged: "
        "capturing groups only in first occurrences, one each (G1); registration order == emission order == group "
        "number, every back-reference carries the number of its own name (G3); first occurrences capture a whole "
        "unit, later ones are the back-reference with a mandatory terminator (G4); the register regex constants, "
        "evaluated over the README's x86 register table plus non-members, accept exactly the family at the selected "
        "width and capture/re-assemble the family letters (G5/G6/G8).")
    ctx.assumptions += ["back-reference semantics of the regex engine",
                        "capture definitions lie on the executed-once spine (the property's quantifier)"]
    ctx.analysed_fn("CaptureGroupBaseBuilder.build", "CapturesManager.get_capture_index", "CapturesManager.add_capture",
                    "SpecialRegisterCaptureGroupBuilder", "SpecialRegisterCaptureGroupTypeBuilder.process",
                    "PatternNodeCaptureGroupRegisterCall.get_regex", "remove_access_suffix",
                    "PatternNodeCaptureGroupOperandCall.get_regex", "PatternNodeCaptureGroupInstructionCall.get_regex",
                    "PatternNodeDerefPropertyCaptureGroupCall.get_regex", "DerefHandler._handle_children")
    res, stats = family_results(ctx, tags=("cap", "regcap"))
    ctx.extra["skeleton_stats"] = stats
    report(ctx, res, "C05", prefixes=("G1.", "G3.", "G4.", "G5."), cats=("cap", "regcap"), compile_tags=("cap", "regcap"))
    # G9: group numbers are the current rule's own: the same capture names compiled after another rule that registered
    # them at other positions (same process) give the regex of the rule compiled alone
    from ..models import Sym
    from ._matchrules import compile_sequence_equals_fresh
    a = {"pattern": [{Sym("M1"): ["&genreg.64", "&val"]}, {Sym("M2"): ["&genreg.32", "&val", "&indreg.16"]}, "&i", "&i"]}
    b = {"pattern": [{Sym("M3"): ["&val", "&indreg.64"]}, "&i", {Sym("M4"): ["&genreg.64"]},
                     {Sym("M5"): ["&genreg.32", "&val", "&indreg.16"]}, "&i"]}
    c = {"config": {"operands-full-match": True},
         "pattern": [{Sym("M6"): [{"$deref": {"main_reg": "&genreg.64", "constant_offset": "&val"}}]}, {Sym("M7"): ["&genreg.8L", "&val"]}]}
    compile_sequence_equals_fresh(ctx, "C05.G9.numbering-independent-of-earlier-rules",
                                  [("B after A", [a, b]), ("A after B", [b, a]), ("C after A and B", [a, b, c]),
                                   ("B twice", [b, b]), ("A after C", [c, a])], same_object=True)
    # Z: end to end on stream templates (back-references matched on tokens): later occurrences equal the bound text
    from ..models import make_interp as _mk
    from ..streamshapes import end_to_end
    end_to_end(ctx, _mk(ctx.p), "C05", "C05.Z.found-where-the-property-says", "C05.Z.not-found-elsewhere")
    # W: the canonical witness listing of every skeleton is found, first character to last (stream templates)
    from ..models import make_interp as _mkw
    from ..streamshapes import witnesses
    if ctx.tier == "thorough" or ('cap', 'regcap'):
        witnesses(ctx, _mkw(ctx.p), "C05.W.canonical-witness-is-found", tags=('cap', 'regcap') if ctx.tier != "thorough" or "C05" != "C07" else ())
    # Q: the regex is searched in the stream of this operation's own listing (nothing carried over from an earlier operation)
    from ._matchrules import stream_per_run
    stream_per_run(ctx, "C05.Q.searched-stream-is-this-operations")
    # Q3: and the verdict / hit list returned is built from this operation's scan only
    from ._matchrules import repeated_operation
    repeated_operation(ctx, "C05.Q.verdict-of-this-operations-scan")
    # Q2: the regex searched is the one generated while the rule's own config was in force (generated in the constructor,
    # right after the rule's config was loaded; matching reuses it)
    from ._matchrules import compiled_with_own_config
    compiled_with_own_config(ctx, "C05.Q.compiled-with-own-config")
