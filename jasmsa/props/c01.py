"""C01 -- instruction-sequence patterns match exactly the listings that contain them."""
from ..cfgflow import load_config_paths, sets_of
from ..models import make_interp
from ..tmplcheck import family_results, report
from ..values import BoolV

FLOORS = {"C01.Q.searched-stream-is-this-operations": 2, "C01.R1.frame-start": 100, "C01.R2.mnemonic-name": 100, "C01.R3.operand-unit": 50,
          "C01.R3.operands-in-order": 100, "C01.R4.flag-loaded": 10, "C01.A2.sequence": 50, "C01.R6.one-search-over-whole-stream": 8}


def run(ctx) -> None:
    ctx.explanation = (
        "Abstract interpretation of the real compile pipeline (Yaml2Regex._get_pattern/_generate_rule_tree/"
        "get_regex) on pattern skeletons with abstract names, for all 4 settings of the two full-match flags; "
        "every mnemonic/operand node's regex is re-expressed as a template over its children and judged "
        "against the hypotheses of Lemmas A and B (DESIGN 3): ADDR+ '::' frame, name piece per mode with the "
        "user's name verbatim, one comma-terminated field per operand in list order, tail skipping to '|'. "
        "Plus the flag wiring from the YAML config keys to the two stored flags.")
    ctx.assumptions += ["stream hypothesis H (fields free of ',' and '|'; C10)", "regex engine semantics",
                        "fields/records shorter than the wildcard bound", "names are regex-metacharacter free"]
    ctx.analysed_fn("Yaml2Regex._get_pattern", "Yaml2Regex._generate_rule_tree", "PatternNodeMnemonic.get_regex",
                    "PatternNodeOperand.get_regex", "InstructionNodeHelper.get_pattern_node_name",
                    "InstructionNodeHelper.allow_matching_substring", "JASMConfig._load_full_match_options",
                    "NodeAnd._make_main_regex")
    res, stats = family_results(ctx)
    ctx.extra["skeleton_stats"] = stats
    report(ctx, res, "C01", prefixes=("R1.", "R2.", "R3."), compile_tags=("seq", "hex"))
    # the implicit top-level $and and sequences at instruction level (R5)
    report(ctx, [r for r in res if r.rule == "A2.sequence" and r.role == "instr"], "C01", prefixes=("A2.",))
    # R6: the verdict is taken over the whole listing: one search over the complete in-order stream
    from ._matchrules import scan_rules
    scan_rules(ctx, "C01.R6.one-search-over-whole-stream", "C01.R6.stream-is-whole-listing")
    # R7: the flags a regex is generated under are the rule's own
    from ._matchrules import compiled_with_own_config
    compiled_with_own_config(ctx, "C01.R7.compiled-with-own-config")
    from ._matchrules import flags_end_to_end
    from ..models import Sym
    pats = [("two instructions with operands", [{Sym("M1"): [Sym("O1"), Sym("O2")]}, Sym("M2"), {Sym("M3"): [Sym("O3")]}])]
    if ctx.tier == "thorough":
        # every skeleton of the quick family, from the constructor on, under each of the 4 flag settings
        from ..skeletons import quick_family
        pats += [(sk.label, sk.yaml()) for sk in quick_family()]
    flags_end_to_end(ctx, "C01.R7.flags-end-to-end", pats)
    # R7c: a rule without a config section (or with an empty one) compiled after a full-match rule is compiled as alone
    from ._matchrules import compile_sequence_equals_fresh
    strict = {"config": {"mnemonics-full-match": True, "operands-full-match": True}, "pattern": [{Sym("A1"): [Sym("B1")]}]}
    plain = [{Sym("M1"): [Sym("O1"), Sym("O2")]}, Sym("M2")]
    compile_sequence_equals_fresh(ctx, "C01.R7.flags-not-inherited", [
        ("rule without a config section after a full-match rule", [strict, {"pattern": plain}]),
        ("rule with an empty config section after a full-match rule", [strict, {"config": {}, "pattern": plain}]),
        ("rule setting only one flag after a full-match rule", [strict, {"config": {"operands-full-match": False}, "pattern": plain}]),
        ("full-match rule after a plain rule", [{"pattern": plain}, strict])])
    # H: the k-th operand is the k-th comma-terminated field only if no field carries a ',' (shared with C10.F / C09.N1)
    from ..normflow import decision_table, decision_table_if_applicable
    from .c10 import _raw_slot
    for a, row, outs, raises in decision_table_if_applicable(ctx, make_interp(ctx.p)):
        if a["has,"] and a["has("] and a["has)"]:
            cls = "&".join(k for k, v in a.items() if v)
            raw = [o for o in outs if _raw_slot(o)]
            ctx.check(bool(outs) and not raw, "C01.H.operand-fields-comma-free", "OperandsParser.parse (one operand)",
                      f"class[{cls}] -> {outs or raises}"[:220],
                      f"an operand with ',' inside parentheses [{cls}] reaches the stream built from comma-split pieces only")
    # H: every operand form objdump prints reaches the stream in its normal form (token templates; incl. the 16-bit forms)
    from .. import shapes as _sh
    _sh.normal_form_rule(ctx, make_interp(ctx.p), "C01.H.operand-normal-forms", listed_only=False)
    _sh.decorated_operand_rule(ctx, make_interp(ctx.p), "C01.H.decorated-operand-is-one-field")
    # R8: the listing the verdict is about is the file's text as Python's text mode reads it
    from ._matchrules import assembly_text_unmodified
    assembly_text_unmodified(ctx, "C01.R8.listing-text-unmodified")
    # R4: YAML keys -> stored flags
    I = make_interp(ctx.p)
    for mn in (None, True, False):
        for op in (None, True, False):
            cfg = {}
            if mn is not None:
                cfg["mnemonics-full-match"] = mn
            if op is not None:
                cfg["operands-full-match"] = op
            paths = load_config_paths(I, cfg)
            good = [p for p in paths if p.kind == "return"]
            if not good:
                ctx.fail("C01.R4.flag-loaded", "JASMConfig.load_config", f"config {cfg} raises",
                         f"a valid config {cfg} makes the loader raise: {paths[0].exc!r}")
                continue
            for p in good:
                sets = sets_of(p)
                for key, want in (("MnemonicsFullMatch", bool(mn)), ("OperandsFullMatch", bool(op))):
                    vals = sets.get(key, [])
                    ok = bool(vals) and isinstance(vals[-1], BoolV) and vals[-1].v == want
                    ctx.check(ok, "C01.R4.flag-loaded", "JASMConfig._load_full_match_options",
                              f"{key}:{'unset' if not vals else vals[-1]}!={want} for config {sorted(cfg)}",
                              f"config {cfg}: flag {key} is stored as {want} on every load (absent key = False)")
    # Z: end to end on stream templates: the compiled regex of whole rules, under each flag setting, searched in token
    # templates of the instruction stream (every instantiation at once): found exactly where the property says, else not
    from ..models import make_interp as _mk
    from ..streamshapes import end_to_end
    end_to_end(ctx, _mk(ctx.p), "C01", "C01.Z.found-where-the-property-says", "C01.Z.not-found-elsewhere")
    # W: the canonical witness listing of every skeleton is found, first character to last (stream templates)
    from ..models import make_interp as _mkw
    from ..streamshapes import witnesses
    if ctx.tier == "thorough" or ('seq',):
        witnesses(ctx, _mkw(ctx.p), "C01.W.canonical-witness-is-found", tags=('seq',) if ctx.tier != "thorough" or "C01" != "C07" else ())
    # Q: the regex is searched in the stream of this operation's own listing (nothing carried over from an earlier operation)
    from ._matchrules import stream_per_run
    stream_per_run(ctx, "C01.Q.searched-stream-is-this-operations")
    # Q3: and the verdict / hit list returned is built from this operation's scan only
    from ._matchrules import repeated_operation
    repeated_operation(ctx, "C01.Q.verdict-of-this-operations-scan")
