"""C14 -- results depend only on the current inputs, never on earlier runs in the process."""
import ast
import re

from ..census import global_state
from ..cfgflow import load_config_paths, sets_of
from ..facts import _dotted
from ..matchflow import match_interp, run_sequence
from ..models import Sym, lift_skeleton, make_interp
from ..values import NONE, Obj, Str, Hole
from ._matchrules import repeated_operation

FLOORS = {"C14.H1.global-state-census": 3, "C14.H2.every-key-reloaded": 5, "C14.H3.sequence-equals-fresh": 12,
          "C14.H3.compile-sequence-equals-fresh": 4}

REVIEWED = {
    "cls._instance": "the JASMConfig singleton object itself (no rule data)",
    "cls.global_info": "the singleton's key/value store; every key is rewritten by load_config on each compilation (H2)",
    "JASMConfig._instance": "same singleton, class-level declaration",
    "jasm.logging_config.logger": "the logging.Logger; handlers are only added by configure_logger, called from main()",
}


def norm(x: str) -> str:
    return re.sub(r"_(\d+)\b", "_k", re.sub(r"#\d+", "", x))


def run(ctx) -> None:
    ctx.explanation = (
        "(H0: the config singleton's own get_info/_set_info are interpreted, not modelled.) (H1) whole-program census of process-global mutable state (module-level mutable objects, class-level mutable "
        "attributes that are mutated, run-time class-attribute assignment, `global`, mutable default arguments, "
        "memoising decorators): every item must be in the reviewed table. (H2) every config key read anywhere is "
        "written by load_config on every non-raising path, for an empty and for an opaque config. (H3) sequences of "
        "complete operations are interpreted abstractly IN ONE RUN (shared class-level and singleton state): for 6 "
        "predecessor operations x 3 successors the successor's observable facts - every config value it reads, the "
        "observers installed, the objdump argv, the regex calls, the result - equal those of the successor run alone; "
        "likewise two compilations in one run (captures, full-match flags) and a repeated perform_matching.")
    ctx.assumptions += ["operations are complete compile-and-match calls, not interleaved (the property's quantifier)"]
    ctx.analysed_fn("JASMConfig.load_config", "JASMConfig._load_full_match_options", "JASMConfig._load_assembly_style",
                    "JASMConfig._load_valid_addr_range", "JASMConfig._load_sections", "Yaml2Regex.__init__",
                    "Yaml2Regex.context_initializer", "MasterOfPuppets.__init__", "MasterOfPuppets._do_matching_and_get_result",
                    "GNUObjdumpDisassembler.__init__", "all modules (census)")
    # H1
    for kind, name, where, detail in global_state(ctx.p):
        ctx.check(name in REVIEWED, "C14.H1.global-state-census", name, f"{kind}: {detail}"[:200],
                  f"{kind} {name} ({detail}) is reviewed: {REVIEWED.get(name, 'NOT REVIEWED - new process-global state')}",
                  where=where)
    # H2
    read_keys = set()
    for m in ctx.p.modules.values():
        for n in ast.walk(m.tree):
            if isinstance(n, ast.Call) and isinstance(n.func, ast.Attribute) and n.func.attr == "get_info" and n.args:
                a = n.args[0]
                if isinstance(a, ast.Constant):
                    read_keys.add(str(a.value))
                elif isinstance(a, ast.Attribute):
                    read_keys.add(a.attr)
                else:
                    read_keys.add("?" + ast.unparse(a))
    read_keys = {k for k in read_keys if not k.startswith("?")}
    I = make_interp(ctx.p)
    from ..compose import analyse_skeleton
    for a in analyse_skeleton(I, [{Sym("M"): [Sym("O")]}]):
        read_keys |= {e.key for e in a.path.events if e.kind == "cfg_get"}
    from ..values import Unknown
    for label, config in (("empty config", {}), ("opaque config", Unknown("CONFIG", {"type": "dict", "truthy": True}))):
        paths = [p for p in load_config_paths(I, config) if p.kind == "return"]
        if not paths:
            ctx.fail("C14.H2.every-key-reloaded", "JASMConfig.load_config", f"{label}: no returning path", "loader never returns")
        for k in sorted(read_keys):
            missing = [p for p in paths if k not in sets_of(p)]
            ctx.check(not missing, "C14.H2.every-key-reloaded", "JASMConfig.load_config", f"key {k} not written ({label})",
                      f"key {k} (read somewhere in the program) is written on every non-raising path of load_config [{label}]")
    # H3 sequences
    Im = match_interp(ctx.p)
    rng = {"valid_addr_range": {"min": Sym("MIN"), "max": Sym("MAX")}}
    preds = [
        {"config": dict(rng), "file_type": "assembly"},
        {"config": {"sections": [".b", ".a"]}, "file_type": "binary"},
        {"config": {"mnemonics-full-match": True, "operands-full-match": True}, "file_type": "assembly"},
        {"config": {"style": "intel"}, "file_type": "binary"},
        {"config": dict(rng, sections=[".plt"]), "file_type": "binary", "search_mode": "first_find", "return_mode": "bool"},
        {"config": {}, "file_type": "assembly", "only_addr": True},
    ]
    succs = [
        {"config": {}, "file_type": "binary"},
        {"config": {}, "file_type": "assembly"},
        {"config": {"sections": [".text"], "valid_addr_range": {"min": Sym("LO"), "max": Sym("HI")}}, "file_type": "binary"},
    ]

    def summarise(runs):
        out = set()
        for path, facts, results in runs:
            f = facts[-1]
            out.add(norm(str((tuple(f["cfg_reads"]), tuple(f["observers"]), tuple(f["argv"]), tuple(f["regex"]),
                              Im.expr_of(results[-1])))))
        return out
    alone = [summarise(run_sequence(Im, [b])) for b in succs]
    for ai, a in enumerate(preds):
        for bi, b in enumerate(succs):
            seq = summarise(run_sequence(Im, [a, b]))
            diff = sorted(seq ^ alone[bi])
            ctx.check(not diff, "C14.H3.sequence-equals-fresh", f"operation {b} after {a}"[:150],
                      (diff[0] if diff else "")[:300],
                      "config values read, observers, objdump argv, regex calls and result equal those of the operation alone")
    if ctx.tier == "thorough":
        # every ordered pair of predecessors before every successor
        import itertools
        for (ai, a), (a2i, a2) in itertools.permutations(list(enumerate(preds)), 2):
            for bi, b in enumerate(succs):
                seq = summarise(run_sequence(Im, [a, a2, b]))
                diff = sorted(seq ^ alone[bi])
                ctx.check(not diff, "C14.H3.sequence-equals-fresh", f"operation #{bi} after predecessors #{ai},#{a2i}",
                          (diff[0] if diff else "")[:300], "a successor after two other operations equals the successor alone")
    repeated_operation(ctx, "C14.H3.repeat-equals-first", Im)
    # H3b compile sequence
    y2r = ctx.p.find_class("Yaml2Regex")
    docA = {"config": {"mnemonics-full-match": True, "operands-full-match": True},
            "pattern": [{"mov": ["&x", "&y"]}, {"mov": ["&y", "&genreg.64"]}, "&i"]}
    docsB = [{"pattern": [{"mov": ["&y", Sym("O1")]}, {"mov": ["&y"]}]},
             {"config": {"operands-full-match": True}, "pattern": [{Sym("M1"): ["&genreg.32", "&x"]}, {Sym("M2"): ["&x"]}]}]
    from ..matchflow import load_file_summary
    Ic = make_interp(ctx.p, {"Yaml2Regex.load_file": load_file_summary})

    def compile_seq(docs):
        def thunk(I):
            I.run.user["docs"] = {f"<P{k}>": d for k, d in enumerate(docs)}
            r = NONE
            for k in range(len(docs)):
                y = I.construct(y2r, [Str((Hole(f"P{k}", "path", True),))], {}, None, None)
                r = I.call_func(y2r.find_method("produce_regex"), [], {}, y, None, None)
            return r
        return {(p.kind, Ic.expr_of(p.value) if p.kind == "return" else repr(p.exc)[:80]) for p in Ic.explore(thunk)}
    def compile_twice_same_instance(doc):
        def thunk(I):
            I.run.user["docs"] = {"<P0>": doc}
            y = I.construct(y2r, [Str((Hole("P0", "path", True),))], {}, None, None)
            r1 = I.call_func(y2r.find_method("produce_regex"), [], {}, y, None, None)
            r2 = I.call_func(y2r.find_method("produce_regex"), [], {}, y, None, None)
            return r2 if Ic.expr_of(r1) != Ic.expr_of(r2) else r1
        return {(p.kind, Ic.expr_of(p.value) if p.kind == "return" else repr(p.exc)[:80]) for p in Ic.explore(thunk)}
    # H4: a rule whose config is rejected (or tolerated) is treated as when compiled alone - nothing of the previous rule's
    # config stays in force behind it
    from ._matchrules import compile_sequence_equals_fresh
    good = {"config": {"valid_addr_range": {"min": Sym("MIN"), "max": Sym("MAX")}, "sections": [".plt"], "style": "att",
                       "mnemonics-full-match": True, "operands-full-match": True}, "pattern": [{Sym("M1"): [Sym("O1")]}]}
    pat = [{"call": ["valid_addr"]}, {Sym("M2"): [Sym("O2")]}]
    bads = [("range with an integer bound", {"valid_addr_range": {"min": 36864, "max": Sym("MAX2")}}),
            ("range without max", {"valid_addr_range": {"min": Sym("MIN2")}}),
            ("range that is a string", {"valid_addr_range": "0x1000-0x2000"}),
            ("sections that is a string", {"sections": ".text"}),
            ("sections with a non-string", {"sections": [".text", 5]}),
            ("unknown style", {"style": "masm"}),
            ("flag that is a string", {"mnemonics-full-match": "yes"})]
    compile_sequence_equals_fresh(ctx, "C14.H4.rejected-config-leaves-nothing-behind",
                                  [(f"rule with a {lab} after a fully configured rule", [good, {"config": c, "pattern": pat}]) for lab, c in bads])
    from ..matchflow import last_op_outcomes
    good_op = {"config": good["config"], "file_type": "assembly"}
    for lab, c in bads:
        for ft in ("assembly", "binary"):
            bad_op = {"config": c, "file_type": ft, "pattern": pat}
            fresh, seq = last_op_outcomes(Im, [bad_op]), last_op_outcomes(Im, [good_op, bad_op])
            diff = sorted(fresh ^ seq, key=str)
            ctx.check(not diff and bool(fresh), "C14.H4.rejected-config-leaves-nothing-behind",
                      f"{ft} operation with a {lab} after a fully configured operation", (str(diff[0]) if diff else "no outcome")[:300],
                      "the operation ends (error, or config values / observers / argv / regex calls / result) as it does in a fresh process")
    # H5: tables consulted while compiling are not used up: the same names compile the same way every time
    regdoc = {"pattern": [{Sym("M1"): ["ah", Sym("O1")]}, {Sym("M2"): ["bh", "10h"]}, {Sym("M3"): ["ch", "dh"]}]}
    hexdoc = {"pattern": [{Sym("M4"): ["10h", "A3h"]}]}
    compile_sequence_equals_fresh(ctx, "C14.H5.tables-not-used-up", [
        ("register-like operand names, compiled twice", [regdoc, regdoc]),
        ("register-like operand names after hex literals", [hexdoc, regdoc]),
        ("register-like operand names, third compilation", [regdoc, hexdoc, regdoc])])
    timesdoc = {"pattern": [{Sym("M1"): [Sym("O1")], "times": 2}, {"$or": [Sym("M2"), Sym("M3")], "times": {"min": 0, "max": 3}},
                            {Sym("M4"): {"times": 3}}, {Sym("M5"): ["&x"]}, {Sym("M6"): ["&x"]}]}
    for label, d in (("times/captures rule", timesdoc), ("capture rule", docsB[0])):
        one = compile_seq([d])
        two = compile_twice_same_instance(d)
        diff = sorted(one ^ two)
        ctx.check(not diff, "C14.H3.compile-sequence-equals-fresh", f"produce_regex() twice on one Yaml2Regex [{label}]",
                  (str(diff[0]) if diff else "")[:300], "compiling the same loaded rule again gives the same regex")
    for bi, dB in enumerate(docsB):
        fresh = compile_seq([dB])
        for label, seqdocs in (("after a rule with captures and full-match flags", [docA, dB]), ("twice", [dB, dB])):
            got = compile_seq(seqdocs)
            diff = sorted(got ^ fresh)
            ctx.check(not diff, "C14.H3.compile-sequence-equals-fresh", f"compilation #{bi} {label}",
                      (str(diff[0]) if diff else "")[:300], "the regex of a rule compiled later equals the regex compiled first")
