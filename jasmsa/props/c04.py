"""C04 -- $not consumes exactly one instruction (or operand) at which its argument fails."""
from ..tmplcheck import family_results, report

FLOORS = {"C04.Q.searched-stream-is-this-operations": 2, "C04.N1.lookahead": 40, "C04.N2.unit-instruction": 20, "C04.N2.unit-operand": 15}


def run(ctx) -> None:
    ctx.explanation = (
        "Every $not node (leading, inner, trailing, repeated, nested, of a group, at instruction and operand level) of "
        "the analysed skeletons: its regex with the argument cut out must be (?!ARG) followed by exactly one aligned "
        "unit - ADDR+ '::' [^|]* '|' at instruction level, [^,|]* ',' in an operand list - the quantifier (if any) "
        "wrapping look-ahead and unit together; the argument is typed in the surrounding context (its own regex is "
        "judged by the rules of that role).")
    ctx.assumptions += ["negative look-ahead semantics of the regex engine", "stream hypothesis H"]
    ctx.analysed_fn("NodeNot._make_main_regex", "NodeNotOperand", "NotHandler.handle", "builder_for_context")
    res, stats = family_results(ctx, tags=("not",))
    ctx.extra["skeleton_stats"] = stats
    report(ctx, res, "C04", prefixes=("N1.", "N2."), cats=("$not",), compile_tags=("not",))
    # compiling leaves the rule document as loaded: a $not item shared through a YAML alias or a macro body keeps its times
    report(ctx, [r for r in res if r.rule.startswith("X.input") and "not" in r.tags], "C04", prefixes=("X.input",))
    # N0: every written $not is a $not node of the typed tree with the written argument (no "not not X = X" folding:
    # the double negation consumes ONE instruction where X matches, X itself consumes all it spans)
    report(ctx, [r for r in res if r.rule == "T1.tree-mirrors-pattern" and "not" in r.tags], "C04.N0", prefixes=("T1.",))
    # N3: the argument is typed in the surrounding context -> judged by that role's rules
    args = [r for r in res if r.rule.split(".")[0] in ("R1", "R2", "R3", "A1", "A2", "A3") and "rewritten" not in r.atom]
    report(ctx, args, "C04.N3", prefixes=("R", "A"))
    # N4: the $not argument is compiled under the rule's own full-match flags, from the constructor on
    from ._matchrules import flags_end_to_end
    from ..models import Sym
    flags_end_to_end(ctx, "C04.N4.argument-under-own-flags", [
        ("$not of an instruction, then an instruction", [{"$not": [{Sym("M1"): [Sym("O1")]}]}, {Sym("M2"): [Sym("O2")]}]),
        ("operand-level $not", [{Sym("M1"): [{"$not": [Sym("O1")]}, Sym("O2")]}])])
    # Z: end to end on stream templates: the compiled regex of whole rules, under each flag setting, searched in token
    # templates of the instruction stream (every instantiation at once): found exactly where the property says, else not
    from ..models import make_interp as _mk
    from ..streamshapes import end_to_end
    end_to_end(ctx, _mk(ctx.p), "C04", "C04.Z.found-where-the-property-says", "C04.Z.not-found-elsewhere")
    # W: the canonical witness listing of every skeleton is found, first character to last (stream templates)
    from ..models import make_interp as _mkw
    from ..streamshapes import witnesses
    if ctx.tier == "thorough" or ('not',):
        witnesses(ctx, _mkw(ctx.p), "C04.W.canonical-witness-is-found", tags=('not',) if ctx.tier != "thorough" or "C04" != "C07" else ())
    # Q: the regex is searched in the stream of this operation's own listing (nothing carried over from an earlier operation)
    from ._matchrules import stream_per_run
    stream_per_run(ctx, "C04.Q.searched-stream-is-this-operations")
    # Q3: and the verdict / hit list returned is built from this operation's scan only
    from ._matchrules import repeated_operation
    repeated_operation(ctx, "C04.Q.verdict-of-this-operations-scan")
    # Q2: the regex searched is the one generated while the rule's own config was in force (generated in the constructor,
    # right after the rule's config was loaded; matching reuses it)
    from ._matchrules import compiled_with_own_config
    compiled_with_own_config(ctx, "C04.Q.compiled-with-own-config")
