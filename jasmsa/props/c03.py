"""C03 -- $or / $and / $and_any_order compose as alternation / sequence / permutation."""
from ..tmplcheck import family_results, report

FLOORS = {"C03.Q.searched-stream-is-this-operations": 2, "C03.A1.alternation": 50, "C03.A1.sealed": 80, "C03.A2.sequence": 200, "C03.A3.permutations": 30,
          "C03.E.child-embedded-once": 1000}


def run(ctx) -> None:
    ctx.explanation = (
        "For every $and/$or/$and_any_order node of every analysed skeleton (instruction level, operand level, inside "
        "a $deref field; nested up to the family's depth) the node's regex, with its children's regexes cut out, must "
        "be: the children in list order ($and), a sealed alternation with exactly one alternative per child ($or), a "
        "sealed alternation of all k! orderings with each child once per ordering ($and_any_order). Children are typed "
        "by role (instruction item / operand / field) and judged by the leaf rules of that role, so a child typed in "
        "the wrong context fails its unit rule; every child regex must be embedded verbatim exactly once.")
    ctx.assumptions += ["regex alternation/concatenation semantics", "children regexes are embedded by string concatenation"]
    ctx.analysed_fn("NodeOr.join_or_instructions", "NodeAnd._make_main_regex", "NodeAndAnyOrder._make_main_regex",
                    "NodeAndAnyOrder.generate_any_order_permutation", "LogicalOperationBaseNode.process_children",
                    "NaryOperatorHandler._handle_children", "LeafHandler.handle", "OperandBuilder.build_handler_chain",
                    "DerefChildrenBuilder.build_handler_chain", "GeneralPatternNodeBuilder.build_handler_chain")
    res, stats = family_results(ctx)
    ctx.extra["skeleton_stats"] = stats
    report(ctx, res, "C03", prefixes=("A1.", "A2.", "A3.", "E."), cats=("$and", "$or", "$and_any_order"),
           compile_tags=("ops", "nest", "closure"))
    # context typing of operator children: leaf rules of nodes that sit under an operator
    under_op = [r for r in res if r.rule.split(".")[0] in ("R1", "R2", "R3", "D", "D1") and
                ("ops" in r.tags or "closure" in r.tags) and "rewritten" not in r.atom]
    report(ctx, under_op, "C03.A4", prefixes=("R", "D"))
    # Z: end to end on stream templates: the compiled regex of whole rules, under each flag setting, searched in token
    # templates of the instruction stream (every instantiation at once): found exactly where the property says, else not
    from ..models import make_interp as _mk
    from ..streamshapes import end_to_end
    end_to_end(ctx, _mk(ctx.p), "C03", "C03.Z.found-where-the-property-says", "C03.Z.not-found-elsewhere")
    # W: the canonical witness listing of every skeleton is found, first character to last (stream templates)
    from ..models import make_interp as _mkw
    from ..streamshapes import witnesses
    if ctx.tier == "thorough" or ('ops', 'opnd', 'nest'):
        witnesses(ctx, _mkw(ctx.p), "C03.W.canonical-witness-is-found", tags=('ops', 'opnd', 'nest') if ctx.tier != "thorough" or "C03" != "C07" else ())
    # Q: the regex is searched in the stream of this operation's own listing (nothing carried over from an earlier operation)
    from ._matchrules import stream_per_run
    stream_per_run(ctx, "C03.Q.searched-stream-is-this-operations")
    # Q3: and the verdict / hit list returned is built from this operation's scan only
    from ._matchrules import repeated_operation
    repeated_operation(ctx, "C03.Q.verdict-of-this-operations-scan")
    # Q2: the regex searched is the one generated while the rule's own config was in force (generated in the constructor,
    # right after the rule's config was loaded; matching reuses it)
    from ._matchrules import compiled_with_own_config
    compiled_with_own_config(ctx, "C03.Q.compiled-with-own-config")
