"""C12 -- boolean, list, first/all and address-only results agree with each other."""
from ..astq import attr_writes
from ..consumerflow import consumer_scenarios, observer_two_reports
from ..matchflow import match_interp, match_scenarios
from ..models import make_interp
from ..values import AbsList, BoolV, ListV, Str
from ._matchrules import is_addr_projection, list_len, repeated_operation, reports_after

FLOORS = {"C12.A1.single-writer": 1, "C12.A1.written-together": 1, "C12.A2.return-mode-selects-field": 40,
          "C12.A3.address-projection": 2, "C12.A4.mode-selects-call-only": 1, "C12.A5.modes-not-in-compilation": 1}


def run(ctx) -> None:
    ctx.explanation = (
        "MasterOfPuppets(match_config).perform_matching() is interpreted abstractly for all 2x3x2x2 combinations of "
        "file type, return mode, search mode and address-only flag (line parser summarised as 'feeds abstract "
        "instructions'), on every path: the boolean equals 'at least one hit was reported', the list has one entry "
        "per reported hit and these are the reported values, the stream string is what was searched; return mode "
        "selects a field of the one observer created for this call; the search mode changes the regex API only "
        "(same pattern, same string); address-only is split('::')[0] of the same group(0). Whole-program census: "
        "matched/addr_list are written only by MatchedObserver.__init__/regex_matched (+ the property setter).")
    ctx.assumptions += ["regex.search returns the first element of regex.finditer (documented)"]
    ctx.analysed_fn("MasterOfPuppets.__init__", "MasterOfPuppets.perform_matching",
                    "MasterOfPuppets._do_matching_and_get_result", "ConsumerBuilder.build", "ProducerBuilder.build",
                    "ComposableProducer.process_file", "CompleteConsumer.finalize", "MatchedObserver.regex_matched")
    # A1 census
    allowed = {"MatchedObserver.__init__", "MatchedObserver.regex_matched", "MatchedObserver.matched"}
    writes = attr_writes(ctx.p, ("matched", "_matched", "addr_list"))
    bad = [w for w in writes if w[2] not in allowed]
    ctx.check(not bad, "C12.A1.single-writer", "program-wide writes of matched/_matched/addr_list",
              ";".join(f"{w[2]}:{w[3]}" for w in bad)[:200],
              f"verdict and hit list are written only by the observer itself ({len(writes)} write sites found)")
    I0 = make_interp(ctx.p)
    for path in observer_two_reports(I0):
        if path.kind != "return":
            ctx.fail("C12.A1.written-together", "MatchedObserver.regex_matched", f"raises {path.exc!r}", "raises")
            continue
        obs = path.value
        m0 = path.run.user.get("matched0")
        m = I0.get_attr(obs, "matched", None, None)
        al = obs.fields.get("addr_list")
        n = len(al.items) if isinstance(al, ListV) and al.absorbed is None else -1
        ok = isinstance(m0, BoolV) and not m0.v and isinstance(m, BoolV) and m.v and n == 2
        ctx.check(ok, "C12.A1.written-together", "MatchedObserver.regex_matched",
                  f"initial={m0!r} after2={m!r} addr_list={al!r}"[:160],
                  "initially (False, []); every report sets matched and appends exactly one entry")
    # A6: first-match = head of all-matches rests on the API pair: one regex.search / one regex.finditer over the same
    # pattern and stream, each element reported as its group(0) (a findall/split-style API reports other things)
    from ._matchrules import scan_rules
    scan_rules(ctx, "C12.A6.search-and-finditer-pair", "C12.A6.same-whole-stream", "C12.A6.group0-reported")
    # A2
    I = match_interp(ctx.p)
    sc = match_scenarios(I)
    for s in sc:
        if s.path.kind != "return":
            continue
        marks = s.path.run.user.get("call_marks", [0])
        reps = reports_after(s, marks[-1])
        rep_exprs = [I.expr_of([v for k, v in e.frame.locals.items() if k != "self"][0]) for e in reps]
        v = s.path.value
        rm = s.cfg["return_mode"]
        construct = f"MasterOfPuppets._do_matching_and_get_result[{rm}]"
        key = f"{s.cfg['file_type']},{s.cfg['search_mode']},only={s.cfg['only_addr']},cfg={sorted(s.cfg['config'])}"
        if rm == "bool":
            ok = isinstance(v, BoolV) and v.v == (len(reps) > 0)
            ctx.check(ok, "C12.A2.return-mode-selects-field", construct, f"{v!r} with {len(reps)} hit(s) [{key}]",
                      "bool result == (at least one hit reported)")
        elif rm == "matched_addrs_list":
            kind, ln = list_len(v)
            if kind == "conc":
                items = [I.expr_of(x) for x in v.items]
                ok = items == rep_exprs
            else:
                elem = v.absorbed.elem if isinstance(v, ListV) else v.elem
                ok = ln == 0 and len(reps) == 1 and I.expr_of(elem) == rep_exprs[0]
            ctx.check(ok, "C12.A2.return-mode-selects-field", construct,
                      f"list={v!r} reported={rep_exprs} [{key}]"[:220], "list result == the reported hits, in order")
        else:
            calls = [e for e in s.path.events if e.kind == "extern_call" and e.name.startswith("regex.")]
            st = calls[-1].kwargs.get("string") if calls else None
            ok = isinstance(v, Str) and st is not None and I.expr_of(v) == I.expr_of(st)
            ctx.check(ok, "C12.A2.return-mode-selects-field", construct, f"{I.expr_of(v)[:80]} [{key}]",
                      "string result == the searched stream")
    # one observer per call, created inside the call
    for s in sc[:1]:
        pass
    repeated_operation(ctx, "C12.A2.fresh-observer-per-call", I)
    # A3 / A4 from the consumer
    cs = consumer_scenarios(I0, "many")
    for mode in ("first_find", "all_finds"):
        full = {r for s in cs if s.mode == mode and not s.only_addr and s.path.kind == "return" for r in map(_shape, s.reported(I0))}
        addr = {r for s in cs if s.mode == mode and s.only_addr and s.path.kind == "return" for r in map(_shape, s.reported(I0))}
        ok = len(full) == 1 and len(addr) == 1 and is_addr_projection(list(addr)[0], list(full)[0])
        ctx.check(ok, "C12.A3.address-projection", f"CompleteConsumer[{mode}]", f"addr={sorted(addr)} full={sorted(full)}",
                  "address-only value is split('::')[0] of the text reported in full mode, for the same match")
    sigs = {}
    for s in cs:
        if s.path.kind == "return":
            for c in s.regex_calls(I0):
                sigs.setdefault(s.mode, set()).add((c["kwargs"].get("pattern"), c["kwargs"].get("string"),
                                                    tuple(sorted(c["kwargs"]))))
    ok = bool(sigs.get("first_find")) and sigs.get("first_find") == sigs.get("all_finds") and \
        len({pat for pat, _, _ in sigs["first_find"]}) == 1 and len({kw for _, _, kw in sigs["first_find"]}) == 1
    ctx.check(ok, "C12.A4.mode-selects-call-only", "CompleteConsumer.finalize", f"{sigs}"[:200],
              "first-find and all-finds search the same pattern over the same string with the same options")
    # A5: the modes do not reach compilation
    bad = []
    for s in sc[:8]:
        for e in s.path.events:
            if e.kind == "construct" and e.cls == "Yaml2Regex":
                txt = " ".join(I.expr_of(a) for a in list(e.args) + list(e.kwargs.values()))
                if any(w in txt for w in ("MatchingSearchMode", "MatchingReturnMode", "True", "False")):
                    bad.append(txt)
    ctx.check(not bad, "C12.A5.modes-not-in-compilation", "MasterOfPuppets.__init__", ";".join(bad)[:160],
              "Yaml2Regex receives only the pattern path and the macro files")
    # the pattern searched is the compiled rule itself, in every mode
    from ._matchrules import searched_pattern_is_the_rule
    searched_pattern_is_the_rule(ctx, "C12.A7.searched-pattern-is-the-rule")


def _shape(expr: str) -> str:
    """the provenance expression of a reported value with the search arguments elided"""
    import re as _re
    return _re.sub(r"\((pattern=|<REGEX>).*?timeout=[^)]*\)", "(...)", expr)
