"""C10 -- the matcher's text stream is an unambiguous encoding (narrow: writer format and field alphabets)."""
from .. import rx
from ..consumerflow import consumer_scenarios
from ..lineflow import LineShape, token_class
from ..models import make_interp
from ..normflow import decision_table, decision_table_if_applicable
from ..values import AbsList, Hole, Join, Lit, Str
from ._parser import HEX, instr_patterns

FLOORS = {"C10.W.record-template": 1, "C10.W.record-terminator": 2, "C10.F.address-alphabet": 2,
          "C10.F.mnemonic-alphabet": 2, "C10.F.operand-pieces-comma-free": 8}


def writer_rules(ctx, R_template, R_terminator):
    I = make_interp(ctx.p)
    _writer(ctx, I, R_template, R_terminator)


def run(ctx) -> None:
    ctx.explanation = (
        "NARROW CLAIM. Writer: Instruction.stringify interpreted on abstract fields must be "
        "<addr> '::' <mnemonic> ',' JOIN(',', operands); the consumer appends ',|' and the searched string is the "
        "in-order join of the records (one empty field for an operand-less instruction follows). Field alphabets: the "
        "address group of every instruction line regex is a class of hex digits, the mnemonic group's class excludes "
        "',' and blank, and for every operand class that contains ',' inside parentheses the normaliser's output is "
        "built from comma-split pieces only (no raw slice that could carry a ','). NOT decided: '|' and '::' inside "
        "fields, injectivity for arbitrary parser output.")
    ctx.assumptions += ["objdump prints no '|' and no '::' inside a mnemonic/operand token (not checkable from the repo)"]
    ctx.analysed_fn("Instruction.stringify", "CompleteConsumer.consume_instruction", "CompleteConsumer.finalize",
                    "LineParser.parse_instruction", "LineParser.parse_instruction_no_operands", "LineParser.parse_nop_padding",
                    "OperandsParser.parse (one operand)")
    I = make_interp(ctx.p)
    _writer(ctx, I, "C10.W.record-template", "C10.W.record-terminator")
    # W3: every scan searches the stream of its own run only
    from ..matchflow import match_interp, match_scenarios
    Im = match_interp(ctx.p)
    for sc in match_scenarios(Im, file_types=("assembly",), return_modes=("bool",), search_modes=("all_finds",), only_addrs=(False,),
                              configs=({},), repeat=2):
        if sc.path.kind != "return":
            continue
        streams = [Im.expr_of(e.kwargs.get("string")) for e in sc.path.events if e.kind == "extern_call" and e.name.startswith("regex.")]
        ok = len(streams) == 2 and _norm(streams[0]) == _norm(streams[1])
        ctx.check(ok, "C10.W.stream-per-run", "MasterOfPuppets.perform_matching x2", f"{streams}"[:220],
                  "a repeated operation searches the same stream as the first one (records are not accumulated across runs)")
    paths, sites, pats = instr_patterns(I, ctx)
    for pat, roles in sorted(pats.items()):
        sh = LineShape(pat)
        for k in sorted(roles.get("addr", ())):
            c = token_class(sh.group(k)) if sh.group(k) is not None else None
            ok = c is not None and not c.negated and all(ch in HEX for ch in c.chars) and all(
                a in HEX and b in HEX for a, b in c.ranges) and not c.cats
            ctx.check(ok, "C10.F.address-alphabet", "address group of a line regex", f"{sh.group(k)!r} in {pat!r}"[:120],
                      "the address field is a run of hex digits")
        for k in sorted(roles.get("mnemonic", ())):
            c = token_class(sh.group(k)) if sh.group(k) is not None else None
            ok = c is not None and rx.excludes(c, ", ")
            ctx.check(ok, "C10.F.mnemonic-alphabet", "mnemonic group of a line regex", f"{sh.group(k)!r}"[:120],
                      "the mnemonic field excludes ',' (objdump prints branch hints as 'jo,pn') and blank")
    from ._parser import operands_from_operand_group, parser_never_swallows, site_field_kinds
    parser_never_swallows(ctx, "C10.F.no-half-parsed-records")
    site_field_kinds(ctx, "C10.F.field-kinds", I, sites)
    operands_from_operand_group(ctx, "C10.F.operands-only-from-operand-group", I, sites)
    _shape_rules(ctx)
    for a, row, outs, raises in decision_table_if_applicable(ctx, I):
        if a["has,"] and a["has("] and a["has)"]:
            cls = "&".join(k for k, v in a.items() if v)
            bad = [o for o in outs if "OP]" in o.replace("minus", "") and False]
            raw = [o for o in outs if _raw_slot(o)]
            ctx.check(bool(outs) and not raw, "C10.F.operand-pieces-comma-free", "OperandsParser.parse (one operand)",
                      f"class[{cls}] -> {outs or raises}"[:220],
                      f"an operand with ',' inside parentheses [{cls}] is emitted from comma-split pieces only")


def _shape_rules(ctx) -> None:
    # R: whole lines on token templates: the record of each line shape is addr '::' mnemonic ',' operands joined by ','
    # with every memory operand folded into one comma-free field
    from .. import shapes
    shapes.line_record_rule(ctx, make_interp(ctx.p), "C10.R.line-to-record")
    shapes.decorated_operand_rule(ctx, make_interp(ctx.p), "C10.F.decorated-operand-is-one-field")


def _raw_slot(out: str) -> bool:
    """does the output carry the parenthesised part (or the whole operand) unsplit?"""
    import re as _re
    s = _re.sub(r"split\([^)]*\)\|OP>,','\)\[\d\]|split\(OP,','\)\[\d\]|split\(M<[^>]*>,','\)\[\d\]", "PIECE", out)
    from ..normflow import M as _M
    s = s.replace(f"(OP minus {_M})", "OUTSIDE")
    return "OP" in s or "M<" in s


def _norm(x: str) -> str:
    import re as _re
    return _re.sub(r"#\d+", "", x)


def _writer(ctx, I, R_template, R_terminator):
    import re as _re
    ins = ctx.p.find_class("Instruction")

    def thunk(I):
        o = I.construct(ins, [], {"addr": Str((Hole("ADDR", "f", True),)), "mnemonic": Str((Hole("MN", "f", True),)),
                                  "operands": AbsList(Str((Hole("OPND", "f", None),)), "operands", {})}, None, None)
        return I.call_func(ins.find_method("stringify"), [], {}, o, None, None)
    for p in I.explore(thunk):
        v = p.value if p.kind == "return" else None
        ok = False
        if isinstance(v, Str) and len(v.atoms) == 5:
            a = v.atoms
            ok = (isinstance(a[0], Hole) and a[0].tag == "ADDR" and a[1] == "::" and isinstance(a[2], Hole) and a[2].tag == "MN"
                  and a[3] == "," and isinstance(a[4], Join) and a[4].sep == "," and a[4].src == "operands"
                  and not a[4].flags and a[4].elem.render() == "<OPND>")
        ctx.check(ok, R_template, "Instruction.stringify", (v.render() if isinstance(v, Str) else repr(v))[:120],
                  "record = addr '::' mnemonic ',' operands joined by ',' (all operands, in order)")
    for feed in ("two", "many"):
        bad = []
        seen_full = False
        for s in consumer_scenarios(I, feed):
            if s.path.kind != "return":
                continue
            for c in s.regex_calls(I):
                st = c["kwargs"].get("string", "")
                import re as _re
                want = (r"<inst1\.stringify[^>]*>,\|<inst2\.stringify[^>]*>,\|" if feed == "two" else
                        r"JOIN\('',S'<inst\.stringify[^>]*>,\|' over consumed instructions\)")
                if feed == "many" and st == "''" and any(l.startswith("not ") and "non-empty" in l for l in s.path.cond_labels()):
                    continue
                if not _re.fullmatch(want, st):
                    bad.append(st)
                else:
                    seen_full = True
        if not seen_full and not bad:
            bad.append("no path searches the joined stream")
        ctx.check(not bad, R_terminator, f"CompleteConsumer.consume_instruction[{feed}]", ";".join(sorted(set(bad)))[:200],
                  "every record is stringify() + ',|' and the stream is their in-order concatenation with nothing between")
