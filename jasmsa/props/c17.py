"""C17 -- failures are loud: an unscanned input is never reported as 'not found'."""
import ast

from ..cfgflow import load_config_paths
from ..compose import analyse_skeleton
from ..matchflow import match_interp, match_scenarios, run_sequence
from ..models import Sym, make_interp
from ..values import NONE, DictV, Hole, IntV, ListV, Obj, Str, Unknown

FLOORS = {"C17.R1.no-swallowing-handler": 3, "C17.R2.logged-error-raises": 3, "C17.R3.faults-propagate": 20,
          "C17.R4.times-validated": 4, "C17.R5.shape-guards": 10, "C17.R5.config-types": 6, "C17.R7.cli-propagates": 1, "C17.R6.undefined-macro-reported": 12}

CLASSIFIERS = {"OperandsParser.operand_is_int": "classifies an operand string (not an I/O or validation path)",
               "OperandsParser.operand_is_hex": "classifies an operand string",
               "PatternNodeOperand._is_hex_operand": "classifies an operand name"}


def is_conversion_probe(try_node: ast.Try, handler: ast.ExceptHandler) -> bool:
    """try: int(x[, base]) / float(x) [; return <simple>]  except (ValueError|TypeError): return <constant>
    -- a string classifier: the handler answers 'no', nothing else happened in the try body"""
    def simple(e) -> bool:
        return e is None or isinstance(e, (ast.Constant, ast.Name))
    body = list(try_node.body)
    if not body:
        return False
    first = body[0]
    call = first.value if isinstance(first, (ast.Expr, ast.Assign)) else None
    if not (isinstance(call, ast.Call) and isinstance(call.func, ast.Name) and call.func.id in ("int", "float")):
        return False
    if not all(isinstance(st, ast.Return) and simple(st.value) for st in body[1:]):
        return False
    t = handler.type
    names = [t] if isinstance(t, ast.Name) else list(t.elts) if isinstance(t, ast.Tuple) else []
    if not names or not all(isinstance(x, ast.Name) and x.id in ("ValueError", "TypeError") for x in names):
        return False
    return len(handler.body) == 1 and isinstance(handler.body[0], ast.Return) and simple(handler.body[0].value)


def always_raises(body) -> bool:
    if not body:
        return False
    last = body[-1]
    if isinstance(last, ast.Raise):
        return True
    if isinstance(last, ast.If):
        return always_raises(last.body) and always_raises(last.orelse)
    if isinstance(last, (ast.With,)):
        return always_raises(last.body)
    if isinstance(last, ast.Try):
        return always_raises(last.finalbody) or (always_raises(last.body) and all(always_raises(h.body) for h in last.handlers))
    return False


def run(ctx) -> None:
    ctx.explanation = (
        "Error discipline, decided on every path of abstract interpretations plus two syntactic rules. (R1) every "
        "`except` clause ends in raise on all its paths (3 reviewed string classifiers excepted); (R2) every "
        "logger.error/critical is followed by a raise in its block; (R3) MasterOfPuppets(...).perform_matching() "
        "interpreted for assembly and binary input with every modelled fault (missing file, objdump absent, objdump "
        "failing, regex timeout): no path on which an exception was raised returns a verdict; (R4) _get_times on "
        "opaque bounds in both spellings: every returning path has established int, >= 0 and min <= max; (R5) "
        "ill-formed rule shapes ($not with 0/2 arguments, empty groups, $deref without main_reg, scalar bodies, "
        "wrongly typed config values, invalid style) raise on every path; (R7) main() propagates.")
    ctx.assumptions += ["AttributeError/TypeError raised by accident on wrongly typed documents are not anchored (DESIGN 4, C17)"]
    ctx.analysed_fn("ShellDisassembler.disassemble", "NullDisassembler.disassemble", "Yaml2Regex.load_file",
                    "PatternNodeBuilderNoParents._get_times", "TimesType.__post_init__", "NotHandler.handle",
                    "NaryOperatorHandler._handle_children", "DerefObjectBuilder.build", "JASMConfig.load_config", "main")
    # R1 / R2 syntactic
    for m in ctx.p.modules.values():
        for c in list(m.classes.values()):
            for f in list(c.methods.values()) + list(c.setters.values()):
                _syntactic(ctx, m, f)
        for f in m.funcs.values():
            _syntactic(ctx, m, f)
    # R3 fault propagation through the whole flow
    Im = match_interp(ctx.p)
    for s in match_scenarios(Im, return_modes=("bool", "matched_addrs_list"), only_addrs=(False,),
                             configs=({}, {"sections": [".text"]})):
        raised = [e for e in s.path.events if e.kind in ("extern_raise",)]
        caught = [e for e in s.path.events if e.kind == "caught" and e.func not in CLASSIFIERS]
        construct = f"perform_matching[{s.cfg['file_type']},{s.cfg['return_mode']},{s.cfg['search_mode']}]"
        if raised or caught:
            ok = s.path.kind == "raise"
            what = ",".join(sorted({getattr(e, 'exc', None) if isinstance(getattr(e, 'exc', None), str) else
                                    getattr(getattr(e, 'exc', None), 'type_name', '?') for e in raised + caught}))
            ctx.check(ok, "C17.R3.faults-propagate", construct, f"fault {what} but the operation returns {Im.expr_of(s.path.value) if s.path.kind == 'return' else ''}"[:160],
                      f"a fault ({what}) ends the operation with an error")
        if s.path.kind == "return":
            # a verdict is only ever returned after the input's text went through the parser and the stream was searched
            parses = s.path.run.user.get("parse_calls", [])
            scans = [e for e in s.path.events if e.kind == "extern_call" and e.name.startswith("regex.")]
            from_input = [t for t, _, _ in parses if "INPUT_FILE" in Im.expr_of(t)]
            ctx.check(bool(from_input) and bool(scans), "C17.R3.verdict-only-after-a-scan", construct,
                      f"returns {Im.expr_of(s.path.value)[:60]} with {len(from_input)} parse(s) of the input and {len(scans)} search(es)",
                      "every returning path has parsed the input's text and searched the stream")
    # subprocess is checked and the file existence asserted first
    for s in match_scenarios(Im, file_types=("binary",), return_modes=("bool",), search_modes=("first_find",),
                             only_addrs=(False,), configs=({},)):
        for e in s.path.events:
            if e.kind == "extern_call" and e.name.endswith("subprocess.run"):
                ok = Im.expr_of(e.kwargs.get("check", NONE)) == "True"
                ctx.check(ok, "C17.R3.checked-subprocess", "ShellDisassembler.disassemble", "check!=True",
                          "subprocess.run(check=True): a non-zero exit raises")
                break
    # R3c: the listing is decoded by a codec that can fail: an input that is not text (UTF-16, compressed, a binary given
    # with -s) ends in an error, it is not read as mojibake that contains no instruction
    LENIENT = {"latin-1", "latin1", "latin_1", "iso-8859-1", "iso8859-1", "l1", "cp437", "cp850", "cp1252", "mac-roman", "charmap"}
    n_reads = 0
    for s in match_scenarios(Im, file_types=("assembly",), return_modes=("bool",), search_modes=("first_find",), only_addrs=(False,), configs=({},)):
        for e in s.path.events:
            # the same obligation for the other ways of getting text out of a file: Path(...).read_text(...), <bytes>.decode(...)
            if e.kind == "call_unknown" and (e.target.endswith(".read_text") or e.target.endswith(".decode")) and \
                    "INPUT_FILE" in Im.expr_of(e.fvalue):
                n_reads += 1
                pos = list(e.args)
                enc_v = e.kwargs.get("encoding", pos[0] if pos else NONE)
                err_v = e.kwargs.get("errors", pos[1] if len(pos) > 1 else NONE)
                enc = Im.expr_of(enc_v).strip("'\"").lower()
                errs = Im.expr_of(err_v).strip("'\"").lower()
                ctx.check(enc not in LENIENT and errs in ("none", "strict"), "C17.R3.undecodable-input-is-loud", "NullDisassembler.disassemble",
                          f"{e.target.split('.')[-1]}(encoding={enc!r}, errors={errs!r})",
                          "the listing is decoded with a codec and error mode that reject undecodable bytes")
            if e.kind == "open" and "INPUT_FILE" in Im.expr_of(e.file):
                n_reads += 1
                if "b" in Im.expr_of(e.kwargs.get("mode", e.args[1] if len(e.args) > 1 else NONE)):
                    continue        # bytes: judged where they are decoded
                enc = Im.expr_of(e.kwargs.get("encoding", NONE)).strip("'\"").lower()
                errs = Im.expr_of(e.kwargs.get("errors", NONE)).strip("'\"").lower()
                ctx.check(enc not in LENIENT and errs in ("none", "strict"), "C17.R3.undecodable-input-is-loud", "NullDisassembler.disassemble",
                          f"open(..., encoding={enc!r}, errors={errs!r})", "the listing is opened with a codec and error mode that reject undecodable bytes")
        break
    if n_reads == 0:
        from ..facts import AnalysisError
        raise AnalysisError("C17.R3: no recognised read of the input listing (open / read_text / decode) on the assembly route")
    # R4 times
    I = make_interp(ctx.p)
    nb = ctx.p.find_class("PatternNodeBuilderNoParents")
    gt = nb.find_method("_get_times")
    for label, mk in (("int sibling", lambda n, a, b: {"mov": ["x"], "times": n}),
                      ("int inside", lambda n, a, b: {"mov": {"times": n}}),
                      ("dict sibling", lambda n, a, b: {"$or": ["x", "y"], "times": {"min": a, "max": b}}),
                      ("dict inside", lambda n, a, b: {"mov": {"times": {"min": a, "max": b}}})):
        def thunk(I, mk=mk):
            n = Unknown("N", {"expr": "N"})
            a, b = Unknown("A", {"expr": "A"}), Unknown("B", {"expr": "B"})
            d = _lift(I, mk(n, a, b))
            return I.call_func(gt, [d], {}, None, None, None)
        paths = I.explore(thunk)
        rets = [p for p in paths if p.kind == "return"]
        raises = [p for p in paths if p.kind == "raise"]
        bad = []
        for p in rets:
            t = p.value
            lo, hi = (t.fields.get("_min_times"), t.fields.get("_max_times")) if isinstance(t, Obj) else (None, None)
            if isinstance(lo, IntV) and isinstance(hi, IntV):
                continue   # default (1,1): the times key was read as absent
            lt = lo.tag if isinstance(lo, Unknown) else None
            ht = hi.tag if isinstance(hi, Unknown) else None
            facts = [(k, v) for k, v, _ in p.conds]
            clean = lambda x: str(x).replace("?", "").replace(" ", "")

            def holds(pred_true, pred_false):
                return any((any(t in clean(k) for t in pred_true) and v is True) or
                           (any(t in clean(k) for t in pred_false) and v is False) for k, v in facts)
            isint = all(t is None or any(k == ("isinstance", t, "int") and v for k, v in facts) for t in (lt, ht))
            nonneg = lt is None or holds([f"({clean(lt)}>=0)", f"(0<={clean(lt)})"], [f"({clean(lt)}<0)", f"(0>{clean(lt)})"])
            if lt is not None and ht is not None and lt != ht:
                ordered = holds([f"({clean(lt)}<={clean(ht)})", f"({clean(ht)}>={clean(lt)})"],
                                [f"({clean(ht)}<{clean(lt)})", f"({clean(lt)}>{clean(ht)})"])
            else:
                ordered = True
            if not (nonneg and isint and ordered):
                bad.append(f"returns TimesType({Im.expr_of(lo)},{Im.expr_of(hi)}) with nonneg={nonneg} int={isint} ordered={ordered}")
        ctx.check(not bad and raises, "C17.R4.times-validated", f"PatternNodeBuilderNoParents._get_times[{label}]",
                  ";".join(sorted(set(bad)))[:200] or "no raising path",
                  "every accepted bound pair has been established to be integers with 0 <= min <= max")
    # R5 shapes that must be rejected
    S = Sym
    bad_shapes = [
        ("$not without argument", [{"$not": []}, S("M")]),
        ("$not with two arguments", [S("M"), {"$not": [S("A"), S("B")]}]),
        ("operand $not with two arguments", [{S("M"): [{"$not": [S("A"), S("B")]}]}]),
        ("empty $and", [{"$and": []}, S("M")]),
        ("empty $or", [S("M"), {"$or": []}]),
        ("empty $and_any_order", [{"$and_any_order": []}]),
        ("empty operand $or", [{S("M"): [{"$or": []}]}]),
        ("$deref without main_reg", [{S("M"): [{"$deref": {"constant_offset": S("K")}}]}]),
        ("$deref with empty main_reg list", [{S("M"): [{"$deref": {"main_reg": []}}]}]),
        ("scalar body", [{S("M"): 5}]),
        ("negative times", [{S("M"): {"times": -1}}]),
        ("inverted times", [{"$or": [S("A"), S("B")], "times": {"min": 3, "max": 2}}]),
        ("inverted times with an upper bound of 0", [{"$or": [S("A"), S("B")], "times": {"min": 2, "max": 0}}]),
        ("inverted times with an upper bound of 0, body spelling", [{S("M"): {"times": {"min": 1, "max": 0}}}]),
        ("negative lower bound", [{S("M"): {"times": {"min": -1, "max": 2}}}]),
        ("operand with children", [{S("M"): [{S("O"): [S("P")]}]}]),
    ]
    for label, pat in bad_shapes:
        an = analyse_skeleton(I, pat)
        ok = bool(an) and all(a.path.kind == "raise" for a in an)
        ctx.check(ok, "C17.R5.shape-guards", f"compile[{label}]",
                  f"compiles to {[a.regex.render()[:60] for a in an if a.regex is not None][:1]}",
                  f"an ill-formed rule ({label}) is rejected with an error on every path")
    for label, cfg in (("non-bool flag", {"mnemonics-full-match": "yes"}), ("non-bool operands flag", {"operands-full-match": 1}),
                       ("sections not a list", {"sections": ".text"}), ("sections of non-strings", {"sections": [1]}),
                       ("unknown style", {"style": "intell"}), ("style of wrong case", {"style": "ATT"})):
        paths = load_config_paths(I, cfg)
        ok = bool(paths) and all(p.kind == "raise" for p in paths)
        ctx.check(ok, "C17.R5.config-types", f"JASMConfig.load_config[{label}]", f"config {cfg} accepted",
                  f"an invalid config value ({label}) is rejected with an error")
    # R6 an undefined macro is an error (shared with C19)
    from .c19 import shape_rules
    shape_rules(ctx, I, "C17.R6.undefined-macro-reported", "C17.R6.defined-macros-expand", "C17.R6.expander-entered",
                only_undefined=True)
    # R7 the CLI propagates
    def failing(I, func, self_val, args, kwargs, node, fr):
        I.raise_exc("BinaryFileFormatNotSupported", [Str.lit("boom")], node, fr)
    from ..matchflow import load_file_summary, produce_regex_summary
    Ic = make_interp(ctx.p, {"MasterOfPuppets.perform_matching": failing,
                             "Yaml2Regex.load_file": load_file_summary, "Yaml2Regex.produce_regex": produce_regex_summary,
                             "parse_args_from_console": lambda I, f, s, a, k, n, fr: Unknown("args", {"truthy": True, "expr": "args"})})
    mainf = ctx.p.find_func("main")
    paths = Ic.explore(lambda I: I.call_func(mainf, [], {}, None, None, None))
    reached = [p for p in paths if any(e.kind == "raise" and e.exc.type_name == "BinaryFileFormatNotSupported" for e in p.events)]
    bad = [p for p in reached if p.kind == "return"]
    ctx.check(bool(reached) and not bad, "C17.R7.cli-propagates", "main", f"{len(bad)} path(s) of main() return after the library raised",
              "main() lets a failure of the operation propagate (non-zero exit status)")


def _lift(I, x):
    from ..values import Value
    if isinstance(x, Value):
        return x
    if isinstance(x, dict):
        return DictV([(_lift(I, k), _lift(I, v)) for k, v in x.items()])
    if isinstance(x, list):
        return ListV([_lift(I, v) for v in x])
    return I.lift(x)


def _syntactic(ctx, m, f) -> None:
    probes = {id(h) for t in ast.walk(f.node) if isinstance(t, ast.Try) for h in t.handlers if is_conversion_probe(t, h)}
    for n in ast.walk(f.node):
        if isinstance(n, ast.ExceptHandler):
            if f.qualname in CLASSIFIERS or id(n) in probes:
                ctx.ok("C17.R1.no-swallowing-handler", f.qualname, "reviewed: " + CLASSIFIERS.get(f.qualname, "int()/float() conversion probe"))
                continue
            ctx.check(always_raises(n.body), "C17.R1.no-swallowing-handler", f.qualname,
                      f"except {ast.unparse(n.type) if n.type else ''}: does not re-raise",
                      "every except clause ends in raise on all its paths", where=f"{m.rel()}:{n.lineno}")
    for blk in _blocks(f.node):
        for i, st in enumerate(blk):
            if isinstance(st, ast.Expr) and isinstance(st.value, ast.Call) and isinstance(st.value.func, ast.Attribute) \
                    and st.value.func.attr in ("error", "critical") and "log" in ast.unparse(st.value.func.value).lower():
                ok = any(isinstance(x, ast.Raise) for x in blk[i + 1:])
                ctx.check(ok, "C17.R2.logged-error-raises", f.qualname, f"logger.{st.value.func.attr} without raise",
                          "an error that is logged is also raised", where=f"{m.rel()}:{st.lineno}")


def _blocks(node):
    for n in ast.walk(node):
        for field in ("body", "orelse", "finalbody"):
            b = getattr(n, field, None)
            if isinstance(b, list) and b and isinstance(b[0], ast.stmt):
                yield b
        if isinstance(n, ast.Try):
            for h in n.handlers:
                yield h.body
        if isinstance(n, ast.Match):
            for c in n.cases:
                yield c.body
