"""C11 -- all-matches mode is a complete leftmost non-overlapping scan."""
import re

from ..astq import loops_with_exits
from ..consumerflow import consumer_scenarios, observer_two_reports
from ..models import make_interp
from ..values import ListV, AbsList, BoolV

FLOORS = {"C11.S1.api": 4, "C11.S2.every-hit-forwarded": 4, "C11.S3.stream-is-ordered-join": 4,
          "C11.S4.observer-appends": 1, "C11.S2.no-early-exit": 1}
ALLOWED_KW = {"pattern", "string", "timeout"}


def run(ctx) -> None:
    ctx.explanation = (
        "CompleteConsumer.consume_instruction/finalize/do_match_* and MatchedObserver.regex_matched are interpreted "
        "abstractly (2 abstract instructions, every search mode x address-only flag, all paths incl. the timeout "
        "path). Decided: the scan is ONE call of regex.finditer (all matches) / regex.search (first match) with "
        "exactly pattern=<the rule regex>, string=<the in-order join of every consumed record> and timeout - no pos/"
        "endpos/overlapped/partial/flags, no slicing or blocking of the stream; every element of the iterator is "
        "forwarded once, unconditionally, as group(0) (or its address prefix); no break/continue/return in the "
        "forwarding loop; the observer appends. The scan semantics themselves are regex.finditer's (trusted).")
    ctx.assumptions += ["documented semantics of regex.search/finditer (leftmost, non-overlapping)",
                        "patterns cannot match the empty string (the property's restriction)"]
    ctx.analysed_fn("CompleteConsumer.consume_instruction", "CompleteConsumer.finalize",
                    "CompleteConsumer.do_match_first_occurence", "CompleteConsumer.do_match_all_findings",
                    "MatchedObserver.regex_matched")
    I = make_interp(ctx.p)
    sc = consumer_scenarios(I, "two") + consumer_scenarios(I, "many")
    want_api = {"first_find": "regex.search", "all_finds": "regex.finditer"}
    entered = set()
    for mode in ("first_find", "all_finds"):
        for only in (False, True):
            for feed in ("two", "many"):
                mine = [s for s in sc if s.mode == mode and s.only_addr == only and s.feed == feed]
                rets = [s for s in mine if s.path.kind == "return"]
                construct = f"CompleteConsumer[{mode},only_addr={only},listing={feed}]"
                if not rets:
                    ctx.fail("C11.S1.api", construct, "no-returning-path", "the consumer never finishes normally")
                    continue
                for s in mine:
                    entered |= {e.func for e in s.path.events if e.kind == "enter" and e.func.startswith("CompleteConsumer")}
                # S1
                bad = []
                for s in rets:
                    calls = s.regex_calls(I)
                    if len(calls) != 1:
                        bad.append(f"{len(calls)} regex calls: {[c['name'] for c in calls]}")
                        continue
                    c = calls[0]
                    if c["name"] != want_api[mode]:
                        bad.append(f"calls {c['name']} (expected {want_api[mode]})")
                    extra = set(c["kwargs"]) - ALLOWED_KW
                    if extra or len(c["args"]) > 2:
                        bad.append(f"extra arguments {sorted(extra)} {c['args'][2:]}")
                    pat = c["kwargs"].get("pattern", c["args"][0] if c["args"] else None)
                    if pat != "<REGEX>":
                        bad.append(f"pattern={pat}")
                ctx.check(not bad, "C11.S1.api", construct, ";".join(sorted(set(bad)))[:200],
                          f"exactly one {want_api[mode]}(pattern=<rule regex>, string=<stream>, timeout) call")
                # S3 stream
                bad = []
                for s in rets:
                    for c in s.regex_calls(I):
                        st = c["kwargs"].get("string", c["args"][1] if len(c["args"]) > 1 else "")
                        want = (r"<inst1\.stringify[^>]*>[^<]*<inst2\.stringify[^>]*>[^<]*" if feed == "two" else
                                r"JOIN\('',S'<inst\.stringify[^>]*>[^<']*' over consumed instructions\)")
                        if not re.fullmatch(want, st or ""):
                            bad.append(f"string={st}")
                ctx.check(not bad, "C11.S3.stream-is-ordered-join", construct, ";".join(sorted(set(bad)))[:200],
                          "the searched string is the in-order concatenation of every consumed record, whole")
                # S2 forwarding
                bad = []
                for s in rets:
                    labels = s.path.cond_labels()
                    rep = s.reported(I)
                    hit = (mode == "all_finds" and any("yields an element" in l and not l.startswith("not ") for l in labels)) or \
                          (mode == "first_find" and any(l == "match_result" for l in labels))
                    calls = s.regex_calls(I)
                    src = calls[0]["name"] if calls else "?"
                    if hit:
                        suffix = ".group(0).split('::')[0]" if only else ".group(0)"
                        okrep = len(rep) == 1 and rep[0].startswith(src + "(") and rep[0].endswith(
                            ("[*]" if mode == "all_finds" else "") + suffix)
                        if not okrep:
                            bad.append(f"hit but reported {rep}")
                    elif rep:
                        bad.append(f"no hit but reported {rep}")
                ctx.check(not bad, "C11.S2.every-hit-forwarded", construct, ";".join(sorted(set(bad)))[:240],
                          "every element of the scan is forwarded exactly once as M.group(0) (or its address prefix), "
                          "nothing else is forwarded")
    # S2b: no early exit from the forwarding loop
    for qn in sorted(entered):
        f = ctx.p.find_func(qn)
        exits = loops_with_exits(f)
        ctx.check(not exits, "C11.S2.no-early-exit", qn, ",".join(f"{k}@loop" for _, k in exits),
                  "no break/continue/return inside a loop of the matching functions", where=f.where())
    # S4 observer
    for path in observer_two_reports(I):
        if path.kind != "return":
            ctx.fail("C11.S4.observer-appends", "MatchedObserver.regex_matched", f"raises {path.exc!r}", "observer raises")
            continue
        obs = path.value
        al = obs.fields.get("addr_list")
        items = [I.expr_of(x) for x in al.items] if isinstance(al, ListV) and al.absorbed is None else None
        ctx.check(items == ["hit_a", "hit_b"], "C11.S4.observer-appends", "MatchedObserver.regex_matched",
                  f"addr_list={al!r}"[:120], "two reports end up in addr_list in arrival order")
