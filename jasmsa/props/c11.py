"""C11 -- all-matches mode is a complete leftmost non-overlapping scan."""
import re

from ..astq import loops_with_exits
from ..consumerflow import consumer_scenarios, observer_two_reports
from ..models import make_interp
from ..values import ListV, AbsList, BoolV

FLOORS = {"C11.S1.api": 4, "C11.S2.every-hit-forwarded": 4, "C11.S3.stream-is-ordered-join": 4,
          "C11.S4.observer-appends": 1, "C11.S2.no-early-exit": 1}
ALLOWED_KW = {"pattern", "string", "timeout"}


def run(ctx) -> None:
    ctx.explanation = (
        "CompleteConsumer.consume_instruction/finalize/do_match_* and MatchedObserver.regex_matched are interpreted "
        "abstractly (2 abstract instructions, every search mode x address-only flag, all paths incl. the timeout "
        "path). Decided: the scan is ONE call of regex.finditer (all matches) / regex.search (first match) with "
        "exactly pattern=<the rule regex>, string=<the in-order join of every consumed record> and timeout - no pos/"
        "endpos/overlapped/partial/flags, no slicing or blocking of the stream; every element of the iterator is "
        "forwarded once, unconditionally, as group(0) (or its address prefix); no break/continue/return in the "
        "forwarding loop; the observer appends. The scan semantics themselves are regex.finditer's (trusted).")
    ctx.assumptions += ["documented semantics of regex.search/finditer (leftmost, non-overlapping)",
                        "patterns cannot match the empty string (the property's restriction)"]
    ctx.analysed_fn("CompleteConsumer.consume_instruction", "CompleteConsumer.finalize",
                    "CompleteConsumer.do_match_first_occurence", "CompleteConsumer.do_match_all_findings",
                    "MatchedObserver.regex_matched")
    from ._matchrules import scan_rules
    entered, I = scan_rules(ctx, "C11.S1.api", "C11.S3.stream-is-ordered-join", "C11.S2.every-hit-forwarded")
    # S2b: no early exit from the forwarding loop
    for qn in sorted(entered):
        f = ctx.p.find_func(qn)
        exits = loops_with_exits(f)
        ctx.check(not exits, "C11.S2.no-early-exit", qn, ",".join(f"{k}@loop" for _, k in exits),
                  "no break/continue/return inside a loop of the matching functions", where=f.where())
    # S5: each scan reports into a fresh result (a repeated call is a new scan)
    from ._matchrules import repeated_operation
    repeated_operation(ctx, "C11.S5.result-per-scan")
    # S4 observer
    for path in observer_two_reports(I):
        if path.kind != "return":
            ctx.fail("C11.S4.observer-appends", "MatchedObserver.regex_matched", f"raises {path.exc!r}", "observer raises")
            continue
        obs = path.value
        al = obs.fields.get("addr_list")
        items = [I.expr_of(x) for x in al.items] if isinstance(al, ListV) and al.absorbed is None else None
        ctx.check(items == ["hit_a", "hit_b"], "C11.S4.observer-appends", "MatchedObserver.regex_matched",
                  f"addr_list={al!r}"[:120], "two reports end up in addr_list in arrival order")
    # S6: the stream that is scanned holds every instruction of the listing: nothing on the way from the text to the
    # stream swallows an exception and drops (or half-parses) an instruction
    from ._parser import parser_never_swallows
    parser_never_swallows(ctx, "C11.S6.stream-holds-every-instruction")
    # the pattern searched is the compiled rule itself, in every mode
    from ._matchrules import searched_pattern_is_the_rule
    searched_pattern_is_the_rule(ctx, "C11.S7.searched-pattern-is-the-rule")
    # every instruction the parser hands over (but the byte-continuation pseudo instruction) is in the scanned stream: the scan is
    # complete only over a complete stream (decided through the program's own wiring of consumer and observers)
    from ._matchrules import wired_chain_rules
    wired_chain_rules(ctx, "C11.S8.pseudo-instruction-not-in-the-stream", "C11.S8.every-instruction-in-the-scanned-stream")
