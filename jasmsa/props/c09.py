"""C09 -- operands reach patterns in a fixed normal form (narrow: the rewrite table)."""
from .. import rx
from ..models import make_interp
from ..values import AbsList, Hole, ListV, Str
from ._parser import instr_patterns, table_check
from ..lineflow import LineShape, token_class

FLOORS = {"C09.N1.rewrite-table": 30, "C09.N2.one-to-one-in-order": 1, "C09.N3.split-regex": 1,
          "C09.N3.operand-token-class": 1}


def run(ctx) -> None:
    ctx.explanation = (
        "NARROW CLAIM. The operand normaliser is interpreted abstractly on an opaque operand; its path conditions are "
        "the syntactic tests it applies (starts with '(' / '$' / '%', ends with ')', contains ',', '(' , ')'). For "
        "every feasible combination of these tests (operand class) the output template - literals plus slots with "
        "their provenance (piece i of the comma split of the parenthesised part, text outside the parentheses, "
        "operand[1:-1], operand[1:]) - must equal the row the property gives. Plus: parse_operands is a 1:1 ordered "
        "map, the operand splitter is ',' not followed by [^(]*')' (unbounded), the operand token excludes blank "
        "and '#'. NOT decided: that every operand objdump prints falls in the intended class.")
    ctx.assumptions += ["operands have the AT&T forms listed by the property", "re.search/re.split semantics"]
    ctx.analysed_fn("OperandsParser.parse (one operand)", "OperandsParser.form_full_operand_with_4_elements",
                    "OperandsParser.form_full_operand_with_3_elements", "OperandsParser.form_full_operand_with_1_element",
                    "OperandsParser.parse_operands", "LineParser.get_splitted_operands", "LineParser.parse_instruction")
    # S: decided on token templates (every instantiation at once): the normal form of each operand form of the property,
    # the splitting of operand lists, and whole lines (branch target without its <symbol>, operand count and order)
    from .. import shapes
    Is = make_interp(ctx.p)
    shapes.normal_form_rule(ctx, Is, "C09.S1.normal-form-of-every-listed-operand-form", listed_only=False)
    shapes.operand_split_rule(ctx, Is, "C09.S2.commas-split-between-operands-only")
    shapes.line_record_rule(ctx, Is, "C09.S3.line-to-record")
    if ctx.tier == "thorough":
        shapes.thorough_line_rule(ctx, Is, "C09.S3.line-to-record")
    I = make_interp(ctx.p)
    table_check(ctx, "C09.N1.rewrite-table", I)
    # N2
    op = ctx.p.find_class("OperandsParser")

    def thunk(I):
        o = I.construct(op, [AbsList(Str((Hole("OP", "operand", True),)), "operands", {})], {}, None, None)
        return I.call_func(op.find_method("parse"), [], {}, o, None, None)
    bad = []
    npaths = 0
    for p in I.explore(thunk):
        if p.kind != "return":
            continue
        npaths += 1
        v = p.value
        if isinstance(v, ListV) and v.absorbed is not None:
            v = v.absorbed
        if not (isinstance(v, AbsList) and v.src == "operands" and not any(
                v.flags.get(k) for k in ("filters", "order", "sliced", "dedup", "mixed", "prefix_items"))):
            bad.append(repr(v)[:80])
    ctx.check(not bad and npaths > 0, "C09.N2.one-to-one-in-order", "OperandsParser.parse_operands", ";".join(sorted(set(bad)))[:200],
              "the normalised operand list is a 1:1, order-preserving map of the split list (no filter/sort/slice)")
    # N3 split regex
    from ._parser import split_rule
    split_rule(ctx, "C09.N3.split-regex", I)
    # N4 every line's operands come from that line
    from ._parser import lines_parsed_independently
    lines_parsed_independently(ctx, "C09.N4.lines-parsed-independently")
    from ._parser import forwarding_rule
    forwarding_rule(ctx, "C09.N4.lines-reach-the-parser-as-written")
    from ._matchrules import assembly_text_unmodified
    assembly_text_unmodified(ctx, "C09.N4.listing-read-in-text-mode")
    paths, sites, pats = instr_patterns(I, ctx)
    from ._parser import operands_from_operand_group
    operands_from_operand_group(ctx, "C09.N6.operands-only-from-operand-group", I, sites)
    # N5: a line with operands is never parsed by the operand-less regex
    from ..lineflow import instruction_sites, match_calls, origin
    n_no = 0
    for site in sites:
        ops = site.fields.get("operands")
        grp = [origin(I, v) for v in site.fields.values() if not isinstance(v, (ListV, AbsList))]
        pats_used = {o[1] for o in grp if o[0] == "group"}
        if not pats_used:
            continue
        from ..lineflow import LineShape
        shapes = [LineShape(p_) for p_ in pats_used]
        if any(sh.ngroups == 2 for sh in shapes):
            n_no += 1
            # the 3-group regex must have been tried on the same line and failed on this path
            tried = [e for e in match_calls(site.path) if e.args and isinstance(e.args[0], Str) and e.args[0].is_concrete()
                     and LineShape(e.args[0].text()).ngroups >= 3]
            failed = any(isinstance(k, tuple) and k[0] == "truth" and v is False and "match" in str(k) for k, v, _ in site.path.conds)
            ctx.check(bool(tried) and failed, "C09.N5.operands-regex-first", site.where.split(" ")[-1],
                      "an operand-less Instruction is built without the operand-bearing regex having failed",
                      "the operand-less line regex is only used after the operand-bearing one did not match")
    # N3b operand token class
    for pat, roles in pats.items():
        sh = LineShape(pat)
        if sh.ngroups >= 3:
            c = token_class(sh.group(3))
            ok = c is not None and rx.excludes(c, " #") and all(c.matches(x) for x in "%$(),-x0:*<")
            ctx.check(ok, "C09.N3.operand-token-class", "operand token of the instruction line regex", repr(sh.group(3)),
                      "the operand token is one run of characters excluding blank and '#' (drops <symbol> and comments, "
                      "keeps everything else)")
