"""C02 -- repetition bounds (`times`) are honoured exactly."""
from ..tmplcheck import family_results, report

FLOORS = {"C02.Q.searched-stream-is-this-operations": 2, "C02.T5.times-of-a-macro-use": 8, "C02.T.bounds": 40, "C02.T.group": 40, "C02.T1.times-extraction": 1000, "C02.T.none": 500, "C02.T3.A2.sequence": 4, "C02.T3.R1.frame-end": 20}


def run(ctx) -> None:
    ctx.explanation = (
        "The compile pipeline is interpreted abstractly on skeletons that carry `times` in both YAML spellings "
        "(inside the body for leaves, sibling key for items with a list body) on leaves, operators, $not and $deref, "
        "at instruction and operand level. For every node: the times written reaches the node unchanged (T1), the "
        "regex is exactly one non-capturing group quantified {min,max} / {n} (T.bounds, T.group) whose body is the "
        "un-repeated occurrence (the body is then judged by the same shape rules as an un-repeated node: sequence, "
        "alternation, frame...), and (1,1) adds no quantifier.")
    ctx.assumptions += ["regex quantifier semantics", "negative / inverted bounds are judged under C17"]
    ctx.analysed_fn("PatternNodeBuilderNoParents._get_times", "TimesTypeBuilder.get_min_max_regex",
                    "NodeAnd._make_main_regex", "NodeOr._make_main_regex", "NodeNot._make_main_regex",
                    "NodeAndAnyOrder._make_main_regex", "PatternNodeMnemonic._form_regex_with_time",
                    "PatternNodeDeref.get_regex")
    res, stats = family_results(ctx)
    ctx.extra["skeleton_stats"] = stats
    report(ctx, res, "C02", prefixes=("T.", "T1.", "X.input"), compile_tags=("times",))
    # the body of a repeated group is exactly one occurrence: shape rules of the nodes that carry times
    timed = [r for r in res if getattr(r, "timed", False) and r.rule.split(".")[0] in
             ("A1", "A2", "A3", "N1", "N2", "R1", "R3", "D1")]
    report(ctx, timed, "C02.T3", prefixes=("A", "N", "R", "D"))
    # Z: end to end on stream templates: the compiled regex of whole rules, under each flag setting, searched in token
    # templates of the instruction stream (every instantiation at once): found exactly where the property says, else not
    from ..models import make_interp as _mk
    from ..streamshapes import end_to_end
    end_to_end(ctx, _mk(ctx.p), "C02", "C02.Z.found-where-the-property-says", "C02.Z.not-found-elsewhere")
    # W: the canonical witness listing of every skeleton is found, first character to last (stream templates)
    from ..models import make_interp as _mkw
    from ..streamshapes import witnesses
    if ctx.tier == "thorough" or ('times',):
        witnesses(ctx, _mkw(ctx.p), "C02.W.canonical-witness-is-found", tags=('times',) if ctx.tier != "thorough" or "C02" != "C07" else ())
    # T5: `times` written on (or inside) a macro use is the times of the expansion: the rule written with macros compiles to
    # the regex of the inlined rule, for every use form that carries times (the expansion itself is judged under C13)
    from .c13 import SHAPES as _MS, TIMED_TWICE as _MT, compiled_regexes
    Im = _mk(ctx.p)
    for label, macros, pattern, inlined in [x for x in _MS if "times" in x[0]] + list(_MT):
        with_m = compiled_regexes(Im, ctx.p, {"macros": macros, "pattern": pattern})
        manual = compiled_regexes(Im, ctx.p, {"pattern": inlined})
        if not any(k == "return" for _, k, _ in manual):
            from ..facts import AnalysisError
            raise AnalysisError(f"C02.T5 shape '{label}': the inlined rule compiles under no flag setting")
        diff = sorted(with_m ^ manual, key=str)
        ctx.check(not diff, "C02.T5.times-of-a-macro-use", f"produce_regex[{label}]", (str(diff[0]) if diff else "")[:300],
                  f"a rule whose repeated item is written with a macro compiles to the regex of the inlined rule ({label})")
    # Q: the regex is searched in the stream of this operation's own listing (nothing carried over from an earlier operation)
    from ._matchrules import stream_per_run
    stream_per_run(ctx, "C02.Q.searched-stream-is-this-operations")
    # Q3: and the verdict / hit list returned is built from this operation's scan only
    from ._matchrules import repeated_operation
    repeated_operation(ctx, "C02.Q.verdict-of-this-operations-scan")
    # Q2: the regex searched is the one generated while the rule's own config was in force (generated in the constructor,
    # right after the rule's config was loaded; matching reuses it)
    from ._matchrules import compiled_with_own_config
    compiled_with_own_config(ctx, "C02.Q.compiled-with-own-config")
