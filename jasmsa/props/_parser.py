"""shared parser-side analyses for C06 / C09 / C10 / C16"""
from .. import rx
from ..facts import AnalysisError
from ..lineflow import LineShape, instruction_sites, line_paths, origin, subject_of, token_class
from ..models import make_interp
from ..normflow import SPEC, decision_table
from ..values import AbsList, ListV, Str

HEX = "0123456789abcdefABCDEF"


def instr_patterns(I):
    """the distinct regexes whose groups feed Instruction fields, with the roles of the groups"""
    paths = line_paths(I)
    sites = instruction_sites(I, paths)
    if not sites:
        raise AnalysisError("no Instruction(...) construction reached from LineParser.parse")
    pats = {}
    for s in sites:
        for field, v in s.fields.items():
            if isinstance(v, (ListV, AbsList)):
                continue
            o = origin(I, v)
            if o[0] == "group":
                pats.setdefault(o[1], {}).setdefault(field, set()).add(o[2])
    return paths, sites, pats


def table_check(ctx, rule, I):
    n = 0
    for a, row, outs, raises in decision_table(I):
        n += 1
        cls = "&".join(k for k, v in a.items() if v) or "none"
        ok = outs == [SPEC[row]]
        ctx.check(ok, rule, "OperandsParser._process_operand_elem", f"class[{cls}] -> {outs or raises} (expected {row})"[:260],
                  f"operand class [{cls}] is rewritten as row {row}: {SPEC[row]}")
    return n


def lines_parsed_independently(ctx, rule):
    """parse_file_lines maps parse_line over every line, in order, one result per line, nothing carried between lines"""
    from ..values import AbsList, Hole, ListV, Str, Unknown
    from ..models import make_interp

    def parse_line_summary(I, func, self_val, args, kwargs, node, fr):
        a = args[0] if args else kwargs.get("line")
        return Unknown(I.run.new_tag("parsed"), {"expr": f"parse_line({I.expr_of(a)})", "not_none": True})
    I = make_interp(ctx.p, {"parse_line": parse_line_summary})
    pfl = ctx.p.find_func("parse_file_lines")
    lines = AbsList(Str((Hole("LINE", "line", None),)), "file lines", {})
    paths = I.explore(lambda I: I.call_func(pfl, [lines], {}, None, None, None))
    for p in paths:
        v = p.value if p.kind == "return" else None
        if isinstance(v, ListV) and v.absorbed is not None:
            v = v.absorbed
        empty_ok = isinstance(v, ListV) and not v.items and any(l.startswith("not ") for l in p.cond_labels())
        ok = empty_ok or (isinstance(v, AbsList) and v.src == "file lines" and I.expr_of(v.elem) == "parse_line(<LINE>)" and not any(
            v.flags.get(k) for k in ("filters", "order", "sliced", "dedup", "mixed", "prefix_items")))
        extra = [e.kind for e in p.events if e.kind in ("setattr_class", "global_decl", "memo_hit", "setitem_unknown", "loop_carried_store")]
        ctx.check(ok and not extra, rule, "parse_file_lines", f"result={v!r} conds={p.cond_labels()[:3]} state={extra}"[:220],
                  "every line is parsed on its own: the result list is parse_line(line) for each line, in order")
