"""shared parser-side analyses for C06 / C09 / C10 / C16"""
from .. import rx
from ..facts import AnalysisError
from ..lineflow import LineShape, instruction_sites, line_paths, origin, subject_of, token_class
from ..models import make_interp
from ..normflow import SPEC, decision_table, decision_table_if_applicable
from ..values import AbsList, ListV, Str

HEX = "0123456789abcdefABCDEF"


def instr_patterns(I, ctx=None):
    """the distinct regexes whose groups feed Instruction fields, with the roles of the groups.
    With `ctx`: a line parser this abstract (opaque-line) interpretation cannot follow leaves the step undecided - nothing is
    returned, the rules built on it judge no instance (their floors then keep the check from passing), and the rules decided
    exactly on token templates still run and report what they establish."""
    try:
        paths = line_paths(I)
        sites = instruction_sites(I, paths)
        if not sites:
            raise AnalysisError("no Instruction(...) construction reached from LineParser.parse")
    except AnalysisError as exc:
        if ctx is None:
            raise
        ctx.defer(f"line flow (opaque line) undecided: {exc}")
        return [], [], {}
    pats = {}
    for s in sites:
        for field, v in s.fields.items():
            if isinstance(v, (ListV, AbsList)):
                continue
            o = origin(I, v)
            if o[0] == "group":
                pats.setdefault(o[1], {}).setdefault(field, set()).add(o[2])
    return paths, sites, pats


def table_check(ctx, rule, I):
    n = 0
    for a, row, outs, raises in decision_table_if_applicable(ctx, I):
        n += 1
        cls = "&".join(k for k, v in a.items() if v) or "none"
        from ..normflow import ALSO
        extra = [SPEC[r] for r in ALSO.get(row, [])]
        ok = SPEC[row] in outs and all(o == SPEC[row] or o in extra for o in outs)
        ctx.check(ok, rule, "OperandsParser.parse (one operand)", f"class[{cls}] -> {outs or raises} (expected {row})"[:260],
                  f"operand class [{cls}] is rewritten as row {row}: {SPEC[row]}")
    return n


def lines_parsed_independently(ctx, rule):
    """parse_file_lines maps parse_line over every line, in order, one result per line, nothing carried between lines"""
    from ..values import AbsList, Hole, ListV, Str, Unknown
    from ..models import make_interp

    def parse_line_summary(I, func, self_val, args, kwargs, node, fr):
        a = args[0] if args else kwargs.get("line")
        I.run.event("parse_line_summary")
        return Unknown(I.run.new_tag("parsed"), {"expr": f"parse_line({I.expr_of(a)})", "not_none": True})
    I = make_interp(ctx.p, {"parse_line": parse_line_summary})
    pfl = ctx.p.find_func("parse_file_lines")
    lines = AbsList(Str((Hole("LINE", "line", None),)), "file lines", {})
    paths = I.explore(lambda I: I.call_func(pfl, [lines], {}, None, None, None))
    for p in paths:
        v = p.value if p.kind == "return" else None
        if isinstance(v, ListV) and v.absorbed is not None:
            v = v.absorbed
        empty_ok = isinstance(v, ListV) and not v.items and any(l.startswith("not ") for l in p.cond_labels())
        ok = empty_ok or (isinstance(v, AbsList) and v.src == "file lines" and I.expr_of(v.elem) == "parse_line(<LINE>)" and not any(
            v.flags.get(k) for k in ("filters", "order", "sliced", "dedup", "mixed", "prefix_items")))
        extra = [e.kind for e in p.events if e.kind in ("setattr_class", "global_decl", "memo_hit", "setitem_unknown", "loop_carried_store")]
        ctx.check(ok and not extra, rule, "parse_file_lines", f"result={v!r} conds={p.cond_labels()[:3]} state={extra}"[:220],
                  "every line is parsed on its own: the result list is parse_line(line) for each line, in order")


BAD_LIST_FLAGS = ("filters", "order", "sliced", "dedup", "mixed", "prefix_items", "inserted", "appended", "concat")


def operands_from_operand_group(ctx, rule, I, sites):
    """at every Instruction(...) built by the line parser the operand list is either empty (operand-less forms) or the
    normaliser's 1:1 image of re.split(<splitter>, <group k of the line regex that also gave the address>): no element
    from any other source (symbol annotation, comment, raw bytes) is appended, prepended or mixed in"""
    n = 0
    for site in sites:
        v = site.fields.get("operands")
        a = v.absorbed if isinstance(v, ListV) else v
        if isinstance(v, ListV) and v.absorbed is None:
            ok = not v.items
            why = f"literal list of {len(v.items)} element(s)"
        elif isinstance(a, AbsList):
            flags = sorted(k for k in BAD_LIST_FLAGS if a.flags.get(k))
            addr = origin(I, site.fields.get("addr"))
            # the split of the operand group: re.split(<splitter>, group) or, on a path that established that the text
            # has no parenthesis, group.split(',') (the splitter itself is judged by split_rule)
            subj = a.flags.get("subject") if a.flags.get("resplit") else (a.flags.get("of") if a.flags.get("split") else None)
            so = origin(I, subj) if subj is not None else ("other", "", None)
            is_split = bool(a.flags.get("resplit")) or (a.flags.get("split") or ("", ""))[1] == ","
            ok = (not flags and is_split and so[0] == "group" and addr[0] == "group" and so[1] == addr[1]
                  and not (isinstance(v, ListV) and v.items))
            why = f"flags={flags} appended={a.flags.get('appended')} source={a.src[:60]}"
        else:
            ok, why = False, repr(v)[:100]
        n += 1
        ctx.check(ok, rule, site.where.split(" ")[-1].split(":")[0].split("/")[-1] + ":Instruction(operands=...)", why[:220],
                  "the operand list is the normalised split of the operand group of the same line match, nothing added")
    return n


def site_field_kinds(ctx, rule, I, sites):
    """every Instruction(...) the line parser builds: addr is a group of the line regex whose class is hex digits only,
    mnemonic is a literal or a group whose class admits letters beyond hex, operands is a list"""
    n = 0
    for site in sites:
        f = site.fields
        a, m, o = origin(I, f.get("addr")), origin(I, f.get("mnemonic")), f.get("operands")
        bad = []
        if a[0] != "group":
            bad.append(f"addr is {a[0]}:{str(a[1])[:40]}")
        else:
            g = LineShape(a[1]).group(a[2])
            c = token_class(g) if g is not None else None
            if c is None or c.negated or c.cats or not all(ch in HEX for ch in c.chars) or not all(
                    x in HEX and y in HEX for x, y in c.ranges):
                bad.append(f"addr group {a[2]} is not a hex-digit token")
        if m[0] == "group":
            g = LineShape(m[1]).group(m[2])
            c = token_class(g) if g is not None else None
            if c is None or not all(c.matches(ch) for ch in "movsxqzl"):
                bad.append(f"mnemonic group {m[2]} does not admit mnemonic letters")
            if a[0] == "group" and (a[1] != m[1] or a[2] >= m[2]):
                bad.append("mnemonic group does not follow the address group of the same line regex")
        elif m[0] != "literal":
            bad.append(f"mnemonic is {m[0]}:{str(m[1])[:40]}")
        if not isinstance(o, (ListV, AbsList)):
            bad.append(f"operands is not a list: {o!r}"[:60])
        n += 1
        ctx.check(not bad, rule, site.where.split(" ")[-1].split(":")[0].split("/")[-1] + ":Instruction(...)", ";".join(bad)[:220],
                  "addr <- hex address group, mnemonic <- literal or the following token group, operands <- a list")
    return n


def forwarding_rule(ctx, rule):
    """ObjdumpParserManual.parse(text, consumer): the lines handed to parse_line are the text's own lines (text.split('\\n'),
    nothing rewritten before), every parsed line that is an Instruction is forwarded once, in line
    order, and nothing else (config, other conditions) decides"""
    from ..models import make_interp
    from ..values import Hole, Str, Unknown
    opm = ctx.p.find_class("ObjdumpParserManual")

    def parse_line_summary(I, func, self_val, args, kwargs, node, fr):
        a = args[0] if args else kwargs.get("line")
        return Unknown(I.run.new_tag("parsed"), {"expr": f"parse_line({I.expr_of(a)})", "not_none": True})
    I2 = make_interp(ctx.p, {"parse_line": parse_line_summary})

    def thunk(I):
        o = I.construct(opm, [], {}, None, None)
        cons = Unknown("CONSUMER", {"truthy": True, "not_none": True})
        return I.call_func(opm.find_method("parse"), [Str((Hole("FILE", "text", True),)), cons], {}, o, None, None)
    n = 0
    undecided: list = []
    for p in I2.explore(thunk):
        n += 1
        if p.kind != "return":
            if not any(e.kind == "parse_line_summary" for e in p.events):
                # the listing's lines do not go through parse_line: the line parser itself ran on an opaque line (undecided)
                undecided.append(f"{rule}: ObjdumpParserManual.parse does not go through parse_line; its raise on an opaque line is not judged")
                continue
            ctx.fail(rule, "ObjdumpParserManual.parse", f"raises {p.exc!r}"[:80], "parse raises")
            continue
        calls = [e for e in p.events if e.kind == "call_unknown" and e.target.endswith("consume_instruction")]
        cfg = [e for e in p.events if e.kind == "cfg_get"]
        args = [I2.expr_of(c.args[0]) for c in calls if c.args]
        # the per-element decision: either a comprehension filter (kept as a flag of the abstract list) or an
        # isinstance test in the loop body (a path assumption); nothing else may take part
        other = [(k, v) for k, v, _ in p.conds if not (isinstance(k, tuple) and k[0] == "isinstance" and k[-1] == "Instruction")
                 and not (isinstance(k, tuple) and k[0] == "truth")]
        not_instr = any(isinstance(k, tuple) and k[0] == "isinstance" and k[-1] == "Instruction" and v is False for k, v, _ in p.conds)
        empty = any(isinstance(k, tuple) and k[0] == "truth" and v is False for k, v, _ in p.conds)
        # the lines of a listing are what objdump separated by "\n". str.splitlines() is NOT the same function: it also breaks at
        # \r \v \f \x1c-\x1e \x85 \u2028 \u2029, which may sit inside a <symbol> or a # comment (seeded change C16-13)
        wants = [[]] if (not_instr or empty) else [["parse_line(<<FILE>.split('\\n')[*]>)"]]
        ok = args in wants and not cfg and not other
        regrouped = any("extended_elem" in a_ for a_ in args)
        # paths that sort the parsed lines by kind (Label, Section, plain text ...) before forwarding, or that do not go through
        # parse_line at all: a regrouping this analysis cannot follow element by element
        kind_tests = [k for k, _ in other if isinstance(k, tuple) and k[0] == "isinstance" and k[-1] != "Instruction"]
        unfollowed = regrouped or (other and len(kind_tests) == len(other)) or \
            (other and not any("parse_line(" in a_ for a_ in args) and not any("parsed#" in str(k) for k, _ in other))
        if not ok and not cfg and unfollowed:
            # undecided: the check then fails closed unless another rule has something to report
            undecided.append(f"{rule}: the forwarded elements come out of a regrouping that is not followed element-wise "
                             f"(consumed={args}, conditions={[str(k)[:40] for k, _ in other][:3]})")
            continue
        ctx.check(ok, rule, "ObjdumpParserManual.parse",
                  f"consumed={args} expected={wants[0]} config-reads={[c.key for c in cfg]} other-conditions={[str(k)[:40] for k, _ in other]}"[:240],
                  "every parsed line that is an Instruction is forwarded once, in line order; nothing else decides")
    # the same obligation decided exactly on whole-listing templates (sections and labels with repeated names, comments,
    # elisions, byte continuations): what reaches the consumer is the instruction lines' records, once each, in file order
    from .. import shapes
    before = len(ctx.findings)
    n += shapes.listing_order_rule(ctx, make_interp(ctx.p), rule)
    if undecided:
        if len(ctx.findings) == before:
            # a parser that regroups the parsed lines before forwarding them: the element-wise rule does not follow it; the
            # claim for such a structure rests on the listing templates
            ctx.notes.append(f"{undecided[0]} - {len(undecided)} path(s); decided on the listing templates only")
        # (with a failing listing template the finding is reported; nothing is left undecided)
    return n


def split_rule(ctx, rule, I):
    """LineParser.get_splitted_operands: the operand text is split at every ',' not followed by [^(]* ')' (unbounded),
    on the whole text, without a split limit"""
    from .. import rx
    from ..values import AbsList, Hole, Str
    lp = ctx.p.find_class("LineParser")
    m = lp.find_method("get_splitted_operands")
    if m is None:
        raise AnalysisError("anchor LineParser.get_splitted_operands not found")

    def thunk2(I):
        return I.call_func(m, [], {"operands": Str((Hole("OPERANDS", "text", True),))}, None, None, None)
    n = 0
    for p in I.explore(thunk2):
        n += 1
        v = p.value if p.kind == "return" else None
        pat = v.flags.get("resplit") if isinstance(v, AbsList) else None
        ok = False
        why = f"result {v!r} under {p.cond_labels()[:2]}"[:120]
        # extra arguments that spell re.split's defaults (no split limit, no flags) change nothing
        extra = [x for x in (v.flags.get("extra_args") or []) if x not in ("0", "maxsplit=0", "flags=0")] if isinstance(v, AbsList) else []
        if pat is not None and not extra and "OPERANDS" in v.src and not any(v.flags.get(k) for k in BAD_LIST_FLAGS):
            ast = rx.parse(pat)
            items = rx.seq_items(ast)
            if len(items) == 2 and isinstance(items[0], rx.Char) and items[0].c == "," and isinstance(items[1], rx.Group) \
                    and items[1].kind == "nla":
                inner = rx.seq_items(items[1].body)
                ok = (len(inner) == 2 and isinstance(inner[0], rx.Rep) and inner[0].lo == 0 and inner[0].hi is None
                      and isinstance(rx.unwrap(inner[0].body), rx.Cls) and rx.excludes(rx.unwrap(inner[0].body), "(")
                      and all(rx.can_match_char(rx.unwrap(inner[0].body), c) for c in "%,)0x1-$rax ")
                      and isinstance(inner[1], rx.Char) and inner[1].c == ")")
            why = pat
        elif isinstance(v, AbsList) and v.flags.get("split") == ("<OPERANDS>", ",") and not any(v.flags.get(k) for k in BAD_LIST_FLAGS) \
                and any(isinstance(k, tuple) and k[0] == "in" and k[1] in (("s", "("), ("s", ")")) and k[2] == ("s", "<OPERANDS>") and val is False
                        for k, val, _ in p.conds):
            ok = True      # a text without '(' (or without ')') has no protected comma: the plain split is the same split
            why = "plain split on a parenthesis-free text"
        ctx.check(ok, rule, "LineParser.get_splitted_operands", why,
                  "operands are split at every ',' that is not followed by [^(]* ')' (i.e. not inside parentheses), "
                  "on the whole operand text, without a split limit, on every path")
    return n


def parser_never_swallows(ctx, rule):
    """no function of the listing parser (stringify_asm package) or of the consumer catches an exception without
    re-raising it: a line or an instruction that cannot be digested aborts the scan, it is never dropped from the
    stream or passed on half-parsed (the two reviewed string classifiers of the normaliser excepted)"""
    import ast as _ast
    from .c17 import CLASSIFIERS, always_raises, is_conversion_probe
    n = 0
    for m in ctx.p.modules.values():
        rel = m.rel()
        if "stringify_asm" not in rel and not rel.endswith("consumer.py"):
            continue
        funcs = [f for c in m.classes.values() for f in list(c.methods.values()) + list(c.setters.values())] + list(m.funcs.values())
        for f in funcs:
            probes = {id(h) for t in _ast.walk(f.node) if isinstance(t, _ast.Try) for h in t.handlers if is_conversion_probe(t, h)}
            for node in _ast.walk(f.node):
                if isinstance(node, _ast.ExceptHandler):
                    n += 1
                    if f.qualname in CLASSIFIERS or id(node) in probes:
                        ctx.ok(rule, f.qualname, "reviewed: " + CLASSIFIERS.get(f.qualname, "int()/float() conversion probe"))
                        continue
                    ctx.check(always_raises(node.body), rule, f.qualname,
                              f"except {_ast.unparse(node.type) if node.type else ''}: does not re-raise",
                              "every except clause on the way from the listing text to the stream ends in raise",
                              where=f"{rel}:{node.lineno}")
    if n == 0:
        ctx.ok(rule, "stringify_asm + consumer", "no exception handler at all")
    return n
