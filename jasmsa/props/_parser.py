"""shared parser-side analyses for C06 / C09 / C10 / C16"""
from .. import rx
from ..facts import AnalysisError
from ..lineflow import LineShape, instruction_sites, line_paths, origin, subject_of, token_class
from ..models import make_interp
from ..normflow import SPEC, decision_table
from ..values import AbsList, ListV, Str

HEX = "0123456789abcdefABCDEF"


def instr_patterns(I):
    """the distinct regexes whose groups feed Instruction fields, with the roles of the groups"""
    paths = line_paths(I)
    sites = instruction_sites(I, paths)
    if not sites:
        raise AnalysisError("no Instruction(...) construction reached from LineParser.parse")
    pats = {}
    for s in sites:
        for field, v in s.fields.items():
            if isinstance(v, (ListV, AbsList)):
                continue
            o = origin(I, v)
            if o[0] == "group":
                pats.setdefault(o[1], {}).setdefault(field, set()).add(o[2])
    return paths, sites, pats


def table_check(ctx, rule, I):
    n = 0
    for a, row, outs, raises in decision_table(I):
        n += 1
        cls = "&".join(k for k, v in a.items() if v) or "none"
        ok = outs == [SPEC[row]]
        ctx.check(ok, rule, "OperandsParser._process_operand_elem", f"class[{cls}] -> {outs or raises} (expected {row})"[:260],
                  f"operand class [{cls}] is rewritten as row {row}: {SPEC[row]}")
    return n
