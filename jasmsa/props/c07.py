"""C07 -- matches are instruction-aligned and report genuine addresses."""
import yaml

from .. import rx
from ..consumerflow import consumer_scenarios
from ..facts import AnalysisError
from ..models import make_interp
from ..tmplcheck import family_results, report
from ._matchrules import is_addr_projection

FLOORS = {"C07.Q.searched-stream-is-this-operations": 2, "C07.P1.starts-at-address": 300, "C07.P1.ends-at-bar": 300, "C07.P2.separator-discipline": 1000,
          "C07.P3.macro-wildcards": 1, "C07.P4.address-is-prefix-of-match": 2, "C07.P5.scan-starts-at-stream-start": 8}


def run(ctx) -> None:
    ctx.explanation = (
        "Lemma B's hypotheses on every instruction-level leaf regex of the analysed skeletons (mnemonic items, "
        "instruction captures, $not): first consuming atoms ADDR+ '::', last consuming atom the literal '|'; "
        "separator discipline of every class/dot of every node template (operand and deref level exclude ',' and "
        "'|', instruction level excludes '|'); the string-valued macros of the shipped tests/macros/jasm_macros.yaml "
        "parsed as regexes and judged by the operand-level discipline; and the address-only value is "
        "split('::')[0] of group(0) of the same match object that the full-text mode reports.")
    ctx.assumptions += ["leftmost search semantics of regex.search/finditer", "addresses are lower-case hex",
                        "stream hypothesis H ('::' only after an address)"]
    ctx.analysed_fn("PatternNodeMnemonic.get_regex", "PatternNodeCaptureGroupInstructionReference.get_regex",
                    "PatternNodeCaptureGroupInstructionCall.get_regex", "NodeNot._make_main_regex",
                    "CompleteConsumer.get_first_addr_from_regex_result", "CompleteConsumer.do_match_first_occurence",
                    "CompleteConsumer.do_match_all_findings", "tests/macros/jasm_macros.yaml")
    res, stats = family_results(ctx)
    ctx.extra["skeleton_stats"] = stats
    report(ctx, res, "C07", prefixes=("P1.", "P2.", "R1.", "N2.unit-instruction", "G4.instr"))
    # H: the record format Lemma B assumes (shared with C10.W)
    from .c10 import writer_rules
    writer_rules(ctx, "C07.H.record-format", "C07.H.record-terminator")
    # H: record fields come only from the address / mnemonic / operand groups (a '<sym::bol>' annotation never enters)
    from ._parser import instr_patterns, operands_from_operand_group
    _paths, _sites, _pats = instr_patterns(make_interp(ctx.p), ctx)
    operands_from_operand_group(ctx, "C07.H.operands-only-from-operand-group", make_interp(ctx.p), _sites)
    from ._parser import parser_never_swallows, site_field_kinds
    parser_never_swallows(ctx, "C07.H.no-instruction-silently-dropped")
    site_field_kinds(ctx, "C07.H.address-field-is-the-line-address", make_interp(ctx.p), _sites)
    # H: whole lines on token templates give records in which '::' follows the address only and nothing of a <symbol>
    # annotation or comment survives
    from .. import shapes as _shapes
    _shapes.line_record_rule(ctx, make_interp(ctx.p), "C07.H.line-to-record")
    # P5: Lemma B is about a search over the whole stream from its first character (no pos/endpos, no slice)
    from ._matchrules import scan_rules
    scan_rules(ctx, "C07.P5.scan-starts-at-stream-start", "C07.P5.scan-over-whole-stream")
    # Z: end to end on stream templates: the compiled regex of whole rules, under each flag setting, searched in token
    # templates of the instruction stream (every instantiation at once): found exactly where the property says, else not
    from ..models import make_interp as _mk
    from ..streamshapes import end_to_end
    end_to_end(ctx, _mk(ctx.p), "C07", "C07.Z.found-where-the-property-says", "C07.Z.not-found-elsewhere")
    # W: the canonical witness listing of every skeleton is found, first character to last (stream templates)
    from ..models import make_interp as _mkw
    from ..streamshapes import witnesses
    if ctx.tier == "thorough" or ():
        witnesses(ctx, _mkw(ctx.p), "C07.W.canonical-witness-is-found", tags=() if ctx.tier != "thorough" or "C07" != "C07" else ())
    from ._matchrules import observer_chain_rules
    observer_chain_rules(ctx, "C07.H.empty-pseudo-instruction-never-reaches-the-stream", "C07.H.every-other-instruction-reaches-the-stream")
    from ._matchrules import wired_chain_rules
    wired_chain_rules(ctx, "C07.H.empty-pseudo-instruction-never-reaches-the-stream", "C07.H.every-other-instruction-reaches-the-stream")
    # P3 shipped macro file
    f = ctx.p.root / "tests" / "macros" / "jasm_macros.yaml"
    if not f.exists():
        raise AnalysisError(f"anchor {f} not found")
    doc = yaml.safe_load(f.read_text()) or {}
    n = 0
    for m in doc.get("macros", []) or []:
        pat = m.get("pattern")
        if not isinstance(pat, str):
            continue
        n += 1
        try:
            ast = rx.parse(pat)
        except AnalysisError:
            continue
        leaves = [l for l in rx.consuming_leaves(ast, include_look=True) if isinstance(l, (rx.Cls, rx.AnyChar))]
        if not leaves:
            ctx.ok("C07.P3.macro-wildcards", f"tests/macros/jasm_macros.yaml:{m.get('name')}", "no wildcard")
            continue
        bad = sorted({repr(l) for l in leaves if not rx.excludes(l, ",|")})
        ctx.check(not bad, "C07.P3.macro-wildcards", f"tests/macros/jasm_macros.yaml:{m.get('name')}",
                  ",".join(bad), f"string macro {m.get('name')} = {pat!r}: every wildcard excludes ',' and '|' "
                  f"(it is spliced into names, an operand-level position)")
    # P4 address
    I = make_interp(ctx.p)
    sc = consumer_scenarios(I)
    for mode in ("first_find", "all_finds"):
        full = {r for s in sc if s.mode == mode and not s.only_addr and s.path.kind == "return" for r in map(_shape, s.reported(I))}
        addr = {r for s in sc if s.mode == mode and s.only_addr and s.path.kind == "return" for r in map(_shape, s.reported(I))}
        ok = len(full) == 1 and len(addr) == 1 and is_addr_projection(list(addr)[0], list(full)[0]) and \
            list(full)[0].endswith(".group(0)")
        ctx.check(ok, "C07.P4.address-is-prefix-of-match", f"CompleteConsumer[{mode}]",
                  f"addr={sorted(addr)} full={sorted(full)}",
                  "address-only value is M.group(0).split('::')[0] for the same match M whose group(0) is reported "
                  "in full-text mode")
    # Q: the regex is searched in the stream of this operation's own listing (nothing carried over from an earlier operation)
    from ._matchrules import stream_per_run
    stream_per_run(ctx, "C07.Q.searched-stream-is-this-operations")
    # Q3: and the verdict / hit list returned is built from this operation's scan only
    from ._matchrules import repeated_operation
    repeated_operation(ctx, "C07.Q.verdict-of-this-operations-scan")
    # Q2: the regex searched is the one generated while the rule's own config was in force (generated in the constructor,
    # right after the rule's config was loaded; matching reuses it)
    from ._matchrules import compiled_with_own_config
    compiled_with_own_config(ctx, "C07.Q.compiled-with-own-config")
    # the pattern searched is the compiled rule itself, in every mode
    from ._matchrules import searched_pattern_is_the_rule
    searched_pattern_is_the_rule(ctx, "C07.P6.searched-pattern-is-the-rule")


def _shape(expr: str) -> str:
    """the provenance expression of a reported value with the search arguments elided"""
    import re as _re
    return _re.sub(r"\((pattern=|<REGEX>).*?timeout=[^)]*\)", "(...)", expr)
