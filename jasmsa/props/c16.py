"""C16 -- only the instruction sequence matters, not how the listing is presented."""
import re

from .. import rx
from ..lineflow import LineShape, origin, subject_of, token_class
from ..matchflow import match_interp, match_scenarios
from ..facts import AnalysisError
from ..models import make_interp
from ..values import NONE, AbsList, Hole, ListV, Obj, Str, Unknown
from ._parser import HEX, instr_patterns

FLOORS = {"C16.I1.only-groups-reach-instruction": 3, "C16.I2.group-shapes": 3, "C16.I3.presentation-optional": 2,
          "C16.I4.only-instructions-forwarded": 1, "C16.I4.empty-instructions-removed": 2}


def has_hex_class(n: rx.Node) -> bool:
    return any(isinstance(x, rx.Cls) and not x.negated and any(x.matches(c) for c in "0123456789abcdef") and
               not x.matches(" ") for x in rx.walk(n))


def is_blank_only(n: rx.Node) -> bool:
    leaves = list(rx.consuming_leaves(n))
    return bool(leaves) and all((isinstance(l, rx.Char) and l.c in " \t") or
                                (isinstance(l, rx.Cls) and not l.negated and all(c in " \t" for c in l.chars) and
                                 not l.ranges and not (l.cats - {"s"})) for l in leaves)


def run(ctx) -> None:
    ctx.explanation = (
        "Information-flow argument over the line parser, from an abstract interpretation of LineParser.parse on an "
        "opaque line: every field of every Instruction(...) it can build is a literal, a capture group of one of the "
        "module's line regexes applied to the line, or the operand list derived from group 3 (I1); in those regexes "
        "group 1 is hex digits preceded only by optional padding, group 2 a blank-free token, group 3 a token "
        "excluding blank and '#', nothing after the last group is captured (I2); leading padding and the raw-byte "
        "column are optional and unbounded (I3); ObjdumpParserManual.parse forwards exactly the Instruction results, "
        "in line order, with no other condition and without reading any configuration, and the byte-continuation "
        "pseudo instruction is removed by an observer that is always installed first (I4).")
    ctx.assumptions += ["objdump's instruction lines have the form padding addr ':' TAB bytes TAB mnemonic operands"]
    ctx.analysed_fn("LineParser.parse", "LineParser.parse_instruction", "LineParser.parse_instruction_no_operands",
                    "LineParser.parse_nop_padding", "ObjdumpParserManual.parse", "parse_file_lines",
                    "ObserverBuilder.get_instruction_observers", "RemoveEmptyInstructions.observe_instruction")
    I = make_interp(ctx.p)
    paths, sites, pats = instr_patterns(I, ctx)
    # I1
    seen = set()
    for s in sites:
        desc = {}
        bad = []
        for field, v in s.fields.items():
            if isinstance(v, (ListV, AbsList)):
                lv = v.absorbed if isinstance(v, ListV) and v.absorbed is not None else v
                if isinstance(lv, ListV):
                    ok = not lv.items
                    desc[field] = "[]" if ok else repr(lv)
                else:
                    ok = bool(re.fullmatch(r"re\.split\('.*',re\.match\(.*\)\.group\(3\)\)|<?re\.match\(.*\)\.group\(3\)>?\.split\(','\)", lv.src)) and not any(
                        lv.flags.get(k) for k in ("filters", "order", "sliced", "dedup"))
                    desc[field] = f"map over {lv.src[:40]}"
                if not ok:
                    bad.append(f"{field}={desc[field]}")
                continue
            o = origin(I, v)
            desc[field] = f"{o[0]}:{o[2] if o[0] == 'group' else o[1]}"
            if o[0] == "other":
                bad.append(f"{field}<-{o[1][:60]}")
            if o[0] == "group":
                subj = subject_of(I, s.path, o[1])
                if subj not in ("<LINE>", "<<LINE>.replace(data16 ,)>"):
                    bad.append(f"{field}: regex applied to {subj[:40]}")
        key = (s.where.split(" ")[-1], str(sorted(desc.items())))
        if key in seen:
            continue
        seen.add(key)
        ctx.check(not bad, "C16.I1.only-groups-reach-instruction", s.where.split(" ")[-1], ";".join(bad)[:200],
                  f"Instruction fields: {desc}")
    # I2 / I3
    for pat, roles in sorted(pats.items()):
        sh = LineShape(pat)
        construct = "line regex " + ("with operands" if sh.ngroups >= 3 else "without operands" if sh.ngroups == 2 else "byte-only")
        bad = []
        g1 = sh.group(1)
        c1 = token_class(g1) if g1 is not None else None
        if not (c1 is not None and not c1.negated and all(ch in HEX for ch in c1.chars) and
                all(a in HEX and b in HEX for a, b in c1.ranges) and not c1.cats):
            bad.append(f"group1={g1!r}")
        pre = sh.between(None, 1)
        if not all(isinstance(x, rx.Anchor) or (rx.nullable(x) and is_blank_only(x)) for x in pre):
            bad.append(f"before-address={''.join(map(repr, pre))}")
        if sh.ngroups >= 2:
            c2 = token_class(sh.group(2))
            if not (c2 is not None and rx.excludes(c2, " ")):
                bad.append(f"group2={sh.group(2)!r}")
        if sh.ngroups >= 3:
            c3 = token_class(sh.group(3))
            if not (c3 is not None and rx.excludes(c3, " #")):
                bad.append(f"group3={sh.group(3)!r}")
        if sh.ngroups > 3:
            bad.append(f"{sh.ngroups} groups")
        ctx.check(not bad, "C16.I2.group-shapes", construct, ";".join(bad)[:200],
                  "address = hex digits after optional padding; mnemonic = blank-free token; operand = token without "
                  "blank and '#'; nothing else is captured")
        # I3: presentation parts optional
        seg = sh.between(1, 2 if sh.ngroups >= 2 else None)
        bytecol = [x for x in seg if has_hex_class(x)]
        if sh.ngroups >= 2:
            for x in bytecol:
                unb = all(not (isinstance(r, rx.Rep) and has_hex_class(r) and r.hi is not None and
                               not (r.lo == r.hi)) for r in rx.walk(x))
                ctx.check(unb, "C16.I3.byte-column-unbounded", construct, repr(x),
                          "the raw-byte column admits any number of bytes")
                ctx.check(rx.nullable(x), "C16.I3.presentation-optional", construct, "byte-column-mandatory",
                          "the raw-byte column is optional (a listing printed without it yields the same stream)")
            if not bytecol:
                ctx.ok("C16.I3.presentation-optional", construct, "no byte column in the regex")
    # I7: a byte-only line (the continuation of a long instruction, in any spacing) is never read as an instruction:
    # the regex that feeds an Instruction site must not match such a line unless a regex tried earlier on the same
    # path does (constant regexes applied to constant witness lines)
    from ..lineflow import match_calls
    witnesses = [pad + addr + ":\t" + b + tail for pad in ("  ", "", "      ") for addr in ("401008", "7ff6", "180157f0c")
                 for b in ("33 22", "00", "de ad be ef 00 11 22", "0f 1f 84 00 00 00 00") for tail in ("", " ", "  ", "\t", "   \t", "        ")]
    # positive control (the rule's expected count is zero): a byte-less line regex MUST be caught by the witnesses
    if not any(re.match(r"^ *([0-9a-fA-F]+):\t([^ ,]+) +\t?([^# ]+).*$", w) for w in witnesses) or \
            not any(re.match(r"^ *([0-9a-fA-F]+):\t([^ ,]+).*$", w) for w in witnesses):
        raise AnalysisError("C16.I7 positive control: the witness lines no longer exercise a byte-less line regex")
    seen7 = set()
    for site in sites:
        ao = origin(I, site.fields.get("addr"))
        mo_ = origin(I, site.fields.get("mnemonic"))
        if ao[0] != "group" or mo_[0] != "group":
            continue    # the pseudo instruction of a padding line (literal mnemonic) is removed by the first observer (I4b)
        tried = [e.args[0].text() for e in match_calls(site.path) if e.args and isinstance(e.args[0], Str) and e.args[0].is_concrete()]
        if ao[1] not in tried:
            continue
        guards = tried[:tried.index(ao[1])]
        key7 = (ao[1], tuple(guards))
        if key7 in seen7:
            continue
        seen7.add(key7)
        hit = [w for w in witnesses if re.match(ao[1], w) and not any(re.match(g, w) or re.search(g, w) for g in guards)]
        ctx.check(not hit, "C16.I7.byte-lines-are-not-instructions", f"line regex {ao[1][:50]!r}", (repr(hit[0]) if hit else ""),
                  "no instruction line regex accepts a line that consists of an address and raw bytes only "
                  f"({len(witnesses)} spacing variants), unless an earlier test on the same path catches that line")
    # I8: decided on token templates: every presentation of an instruction (indentation, byte column, trailing blanks,
    # # comment, <symbol> annotation) yields the same single record; the other line kinds yield none
    from .. import shapes
    Is8 = make_interp(ctx.p)
    shapes.presentation_rule(ctx, Is8, "C16.I8.presentations-give-one-record")
    shapes.other_lines_rule(ctx, Is8, "C16.I8.other-line-kinds-give-nothing")
    from ._matchrules import observer_chain_rules
    observer_chain_rules(ctx, "C16.I9.empty-pseudo-instruction-never-reaches-the-stream", "C16.I9.every-other-instruction-reaches-the-stream")
    from ._matchrules import wired_chain_rules
    wired_chain_rules(ctx, "C16.I9.empty-pseudo-instruction-never-reaches-the-stream", "C16.I9.every-other-instruction-reaches-the-stream")
    # I4 forwarding
    from ._parser import forwarding_rule
    forwarding_rule(ctx, "C16.I4.only-instructions-forwarded")
    # any comprehension filter in parse is the Instruction test
    src = ctx.p.find_func("ObjdumpParserManual.parse")
    import ast as _ast
    comps = [n for n in _ast.walk(src.node) if isinstance(n, (_ast.ListComp, _ast.GeneratorExp))]
    filters = [_ast.unparse(c) for comp in comps for g in comp.generators for c in g.ifs]
    ok = all(re.fullmatch(r"isinstance\(\w+, Instruction\)", f) for f in filters)
    ctx.check(ok, "C16.I4.filter-is-instance-test", "ObjdumpParserManual.parse", f"filters={filters}",
              "a filter applied to the parsed lines is the isinstance(elem, Instruction) test", where=src.where())
    from ._parser import lines_parsed_independently
    lines_parsed_independently(ctx, "C16.I5.lines-parsed-independently")
    # I5: the parser gets the whole listing text, once, unmodified (both routes)
    from ..matchflow import run_sequence
    Iw = match_interp(ctx.p)
    for ft, want, cfg in (("assembly", "open(", {}), ("binary", "subprocess.run(", {}),
                          ("assembly", "open(", {"sections": [".text"], "valid_addr_range": {"min": "0x1000", "max": "0x2000"},
                                                 "style": "att", "mnemonics-full-match": True, "operands-full-match": True})):
        bad = set()
        runs = run_sequence(Iw, [{"config": cfg, "file_type": ft}])
        for path, facts, results in runs:
            pcs = path.run.user.get("parse_calls", [])
            exprs = [Iw.expr_of(t) for t, _, _ in pcs]
            if len(pcs) != 1 or not (exprs[0].startswith(want) and exprs[0].endswith((".read()", ".stdout"))):
                bad.add(str(exprs)[:100])
        ctx.check(bool(runs) and not bad, "C16.I5.whole-text-parsed-once", f"ComposableProducer.process_file[{ft}{', every config key set' if cfg else ''}]", ";".join(sorted(bad))[:200],
                  "the parser receives the complete listing text in one piece (no chunking, slicing or filtering of the text)")
    from ._matchrules import assembly_text_unmodified
    assembly_text_unmodified(ctx, "C16.I5.listing-read-in-text-mode")
    # I6: nothing in the parser keeps state between lines or runs
    from ..census import global_state
    for kind, name, where, detail in global_state(ctx.p):
        if "stringify_asm" in where or "stringify_asm" in name:
            ctx.fail("C16.I6.parser-is-stateless", name, f"{kind}: {detail}"[:160], f"{kind} {name} in the parser package", where=where)
    ctx.ok("C16.I6.parser-is-stateless", "src/jasm/stringify_asm", "census of module/class level state and memoising decorators")
    # I4b RemoveEmptyInstructions always first, and its literal is the one the parser writes
    Im = match_interp(ctx.p)
    n = 0
    for s in match_scenarios(Im, file_types=("assembly", "binary"), return_modes=("bool",), search_modes=("first_find",),
                             only_addrs=(False,)):
        if s.path.kind != "return":
            continue
        cons = [e.obj for e in s.path.events if e.kind == "construct" and e.cls == "CompleteConsumer"]
        obs = cons[-1].fields.get("instruction_observers") if cons else None
        from ..matchflow import wrapped_observer
        first = wrapped_observer(obs.items[0]) if isinstance(obs, ListV) and obs.items else None
        ok = isinstance(first, Obj) and first.cls.name == "RemoveEmptyInstructions"
        n += 1
        if n <= 4 or not ok:
            ctx.check(ok, "C16.I4.empty-instructions-removed", "MasterOfPuppets.prepare_observers",
                      f"first observer = {first!r} [{s.cfg['file_type']}, range={bool(s.cfg['config'])}]",
                      "the observer dropping byte-continuation pseudo instructions is installed first, always")
    lits = {origin(I, s.fields["mnemonic"])[1] for s in sites if "mnemonic" in s.fields and
            origin(I, s.fields["mnemonic"])[0] == "literal" and not any(
                origin(I, v)[0] == "group" and origin(I, v)[2] == 2 for v in s.fields.values() if not isinstance(v, (ListV, AbsList)))}
    pseudo = {s_ for s_ in lits}
    rei = ctx.p.find_class("RemoveEmptyInstructions")
    ins = ctx.p.find_class("Instruction")
    for lit in sorted(x for x in pseudo if x not in ("bad",)):
        def thunk3(I, lit=lit):
            inst = I.construct(ins, [], {"addr": Str.lit("1"), "mnemonic": Str.lit(lit), "operands": ListV([])}, None, None)
            o = I.construct(rei, [], {}, None, None)
            return I.call_func(rei.find_method("observe_instruction"), [inst], {}, o, None, None)
        res = [p.value for p in I.explore(thunk3)]
        ctx.check(all(v is NONE for v in res), "C16.I4.empty-instructions-removed", "RemoveEmptyInstructions.observe_instruction",
                  f"pseudo mnemonic {lit!r} -> {res!r}"[:100],
                  f"the pseudo instruction {lit!r} written for byte-only lines is dropped")
