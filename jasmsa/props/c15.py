"""C15 -- matching a binary equals matching its `objdump -d -M att` text."""
from ..facts import AnalysisError
from ..matchflow import match_interp, run_sequence
from ..values import Obj

FLOORS = {"C15.B1.argv": 4, "C15.B1.subprocess-options": 4, "C15.B2.stdout-to-same-parser": 4, "C15.B2.assembly-route": 1,
          "C15.B3.flags-per-instance": 1}


def run(ctx) -> None:
    ctx.explanation = (
        "MasterOfPuppets(...).perform_matching() is interpreted abstractly for binary and assembly input under four "
        "`sections` settings (absent, one, several in non-alphabetical order, a repeated name). Binary route: exactly one "
        "subprocess.run whose argv is ['objdump','-d','-M','att'] + ['-j', s] for each configured section in list order + "
        "[input file], with capture_output/text/check; its .stdout, unmodified, is what the parser receives. Assembly "
        "route: the file's read() text, unmodified, goes to a parser of the same class, same consumer class. A second "
        "binary operation with other sections gets only its own flags. objdump itself is trusted.")
    ctx.assumptions += ["objdump -d -M att [-j s]* prints what the property calls 'its text'"]
    ctx.analysed_fn("GNUObjdumpDisassembler.__init__", "GNUObjdumpDisassembler._form_section_flags",
                    "ShellDisassembler.disassemble", "NullDisassembler.disassemble", "ProducerBuilder.build",
                    "ComposableProducer.process_file", "JASMConfig._load_sections")
    I = match_interp(ctx.p)
    secs = [None, [".text"], [".plt.got", ".plt", ".init"], [".b", ".a", ".b"], [".text._ZN3Foo3barEv", ".TEXT", "Weird$name "]]
    parser_classes = set()
    for sl in secs:
        cfg = {} if sl is None else {"sections": sl}
        want = ["'objdump'", "'-d'", "'-M'", "'att'"]
        for s_ in (sl or []):
            want += ["'-j'", repr(s_)]
        want_argv = "[" + ", ".join(want + ["<INPUT_0>"]) + "]"
        runs = run_sequence(I, [{"config": cfg, "file_type": "binary"}])
        construct = f"binary route, sections={sl}"
        if not runs:
            ctx.fail("C15.B1.argv", construct, "no returning path", "the binary route never completes")
            continue
        bad_argv, bad_opts, bad_feed = set(), set(), set()
        for path, facts, results in runs:
            if facts[0]["argv"] != [want_argv]:
                bad_argv.add(str(facts[0]["argv"]))
            for e in path.events:
                if e.kind == "extern_call" and e.name.endswith("subprocess.run"):
                    kw = {k: I.expr_of(v) for k, v in e.kwargs.items()}
                    if not (kw.get("check") == "True" and kw.get("text") == "True" and kw.get("capture_output") == "True"
                            and set(kw) <= {"check", "text", "capture_output"}):
                        bad_opts.add(str(sorted(kw.items())))
            parses = path.run.user.get("parse_calls", [])
            for text, cons, parser in parses:
                parser_classes.add(("binary", parser.cls.name if isinstance(parser, Obj) else repr(parser),
                                    cons.cls.name if isinstance(cons, Obj) else repr(cons)))
                ex = I.expr_of(text)
                if not (ex.startswith("subprocess.run(") and ex.endswith(").stdout")):
                    bad_feed.add(ex[:80])
            if len(parses) != 1:
                bad_feed.add(f"{len(parses)} parse calls")
        ctx.check(not bad_argv, "C15.B1.argv", construct, ";".join(sorted(bad_argv))[:240] + f" != {want_argv}",
                  f"the executed command is exactly {want_argv}, once")
        ctx.check(not bad_opts, "C15.B1.subprocess-options", construct, ";".join(sorted(bad_opts))[:200],
                  "subprocess.run(..., capture_output=True, text=True, check=True)")
        ctx.check(not bad_feed, "C15.B2.stdout-to-same-parser", construct, ";".join(sorted(bad_feed))[:200],
                  "the parser receives the command's stdout, unmodified, exactly once")
    runs = run_sequence(I, [{"config": {"sections": [".text"]}, "file_type": "assembly"}])
    bad = set()
    for path, facts, results in runs:
        if facts[0]["argv"]:
            bad.add("assembly route runs a subprocess")
        for text, cons, parser in path.run.user.get("parse_calls", []):
            parser_classes.add(("assembly", parser.cls.name if isinstance(parser, Obj) else repr(parser),
                                cons.cls.name if isinstance(cons, Obj) else repr(cons)))
            ex = I.expr_of(text)
            if not (ex.startswith("open(") and ex.endswith(".read()") and "INPUT_0" in ex):
                bad.add(ex[:80])
    ctx.check(not bad and runs, "C15.B2.assembly-route", "assembly route", ";".join(sorted(bad))[:200],
              "the assembly route feeds the file's text, unmodified, to the parser")
    kinds = {(p, c) for _, p, c in parser_classes}
    ctx.check(len(kinds) == 1 and {r for r, _, _ in parser_classes} == {"assembly", "binary"}, "C15.B2.same-parser-both-routes",
              "ProducerBuilder.build", str(sorted(parser_classes)), "both routes use the same parser class and the same consumer class")
    # B3: flags are per instance
    a = {"config": {"sections": [".plt", ".init"]}, "file_type": "binary"}
    b = {"config": {"sections": [".text"]}, "file_type": "binary"}
    got = {str(f[-1]["argv"]).replace("INPUT_1", "INPUT_0") for _, f, _ in run_sequence(I, [a, b])}
    alone = {str(f[-1]["argv"]) for _, f, _ in run_sequence(I, [b])}
    ctx.check(got == alone and got, "C15.B3.flags-per-instance", "GNUObjdumpDisassembler.__init__", str(sorted(got ^ alone))[:200],
              "a second binary operation gets exactly its own section flags")
    # B5: whatever `style` a rule may name, objdump is never asked for Intel syntax (objdump's selectors for it are the
    # case-sensitive option names intel / intel-mnemonic; anything else after -M leaves AT&T output, and the property
    # pins the binary route to the -M att text)
    import re as _re
    if _re.findall(r"'-M', ([^,\]]+)", "['objdump', '-d', '-M', 'intel', <INPUT_0>]") != ["'intel'"]:
        raise AnalysisError("C15.B5 positive control: the -M argument is no longer extracted from an argv rendering")
    for st in ("intel", "att"):
        runs = run_sequence(I, [{"config": {"style": st}, "file_type": "binary"}])
        bad = set()
        for path, facts, results in runs:
            for av in facts[0]["argv"]:
                m = _re.findall(r"'-M', ([^,\]]+)", av)
                for x in m:
                    if not _re.fullmatch(r"'[^']*'", x) or x.strip("'") in ("intel", "intel-mnemonic") or "intel" in x.strip("'").split(","):
                        bad.add(f"-M {x}")
                if not m:
                    bad.add(f"no -M flag in {av}"[:80])
        ctx.check(bool(runs) and not bad, "C15.B5.never-intel-syntax", f"binary route, style={st}", ";".join(sorted(bad))[:200],
                  "the -M argument is a literal that objdump does not read as an Intel-syntax selector")
    # B6: perform_matching() called again on the same MasterOfPuppets runs the same command again
    from ..matchflow import match_scenarios
    for cf in ({"sections": [".plt", ".text"]}, {}):
        for sc in match_scenarios(I, file_types=("binary",), return_modes=("bool",), search_modes=("first_find",), only_addrs=(False,),
                                  configs=(cf,), repeat=2):
            if sc.path.kind != "return":
                continue
            argvs = []
            for e in sc.path.events:
                if e.kind == "extern_call" and e.name.endswith("subprocess.run"):
                    a = e.args[0] if e.args else e.kwargs.get("args")
                    argvs.append(I.expr_of(a) if not hasattr(a, "items") else "[" + ", ".join(I.expr_of(x) for x in a.items) + "]")
            ctx.check(len(argvs) == 2 and argvs[0] == argvs[1], "C15.B6.same-command-on-every-run", f"perform_matching x2, sections={cf.get('sections')}",
                      f"{argvs}"[:200], "a second perform_matching() on the same object disassembles with the same command line")
    # B4: the syntax flag is the current rule's (att unless the rule says otherwise), whatever ran before
    for prev in ({"config": {"style": "intel"}, "file_type": "binary"}, {"config": {"style": "intel"}, "file_type": "assembly"}):
        nxt = {"config": {}, "file_type": "binary"}
        got = {str(f[-1]["argv"]).replace("INPUT_1", "INPUT_0") for _, f, _ in run_sequence(I, [prev, nxt])}
        alone = {str(f[-1]["argv"]) for _, f, _ in run_sequence(I, [nxt])}
        ctx.check(got == alone and bool(got) and all("'att'" in g for g in got), "C15.B4.style-is-the-rules-own", "JASMConfig._load_assembly_style",
                  str(sorted(got ^ alone))[:200] or str(sorted(got))[:200],
                  "a rule without `style` disassembles with -M att even after a rule with `style: intel` in the same process")
