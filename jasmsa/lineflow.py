"""lineflow -- the line parser: which regex feeds which Instruction field, and the shape of those regexes."""
from __future__ import annotations

from typing import Any, Dict, List, Optional, Tuple

from . import rx
from .absint import Interp, Path
from .facts import AnalysisError
from .models import make_interp
from .values import (NONE, AbsList, Hole, IntV, ListV, Obj, Str, Unknown, Value)


class InstrSite:
    def __init__(self, path: Path, fields: Dict[str, Value], where: str) -> None:
        self.path, self.fields, self.where = path, fields, where


def line_paths(I: Interp) -> List[Path]:
    lp = I.p.find_class("LineParser")
    m = lp.find_method("parse")
    if m is None:
        raise AnalysisError("anchor LineParser.parse not found")

    def thunk(I: Interp) -> Value:
        o = I.construct(lp, [Str((Hole("LINE", "line", None),))], {}, None, None)
        return I.call_func(m, [], {}, o, None, None)
    return I.explore(thunk)


def instruction_sites(I: Interp, paths: List[Path]) -> List[InstrSite]:
    out = []
    for p in paths:
        for ev in p.events:
            if ev.kind == "construct" and ev.cls == "Instruction":
                fields = dict(ev.obj.fields)
                out.append(InstrSite(p, fields, ev.where))
    return out


def match_calls(path: Path) -> List[Any]:
    return [e for e in path.events if e.kind == "extern_call" and e.name in ("re.match", "re.search", "re.fullmatch",
                                                                            "regex.match", "regex.search")]


def origin(I: Interp, v: Value) -> Tuple[str, Optional[str], Optional[int]]:
    """('literal', text, None) | ('group', pattern, k) | ('other', expr, None)"""
    if isinstance(v, Str) and v.is_concrete():
        return ("literal", v.text(), None)
    if isinstance(v, Unknown):
        co = v.meta.get("call_of")
        if isinstance(co, Unknown) and co.meta.get("attr") == "group":
            recv = co.meta.get("recv")
            args = v.meta.get("args", [])
            if isinstance(recv, Unknown) and "pattern_text" in recv.meta and len(args) == 1 and isinstance(args[0], IntV):
                return ("group", recv.meta["pattern_text"], args[0].v)
    if isinstance(v, Str) and v.single_hole() is not None and v.single_hole().kind == "match":
        return ("group", v.single_hole().meta.get("pattern"), 0)
    return ("other", I.expr_of(v), None)


def subject_of(I: Interp, path: Path, pattern: str) -> str:
    for e in match_calls(path):
        if e.args and isinstance(e.args[0], Str) and e.args[0].is_concrete() and e.args[0].text() == pattern:
            return I.expr_of(e.args[1]) if len(e.args) > 1 else "?"
    return "?"


# ------------------------------------------------------------------ structure of a line regex
class LineShape:
    def __init__(self, pattern: str) -> None:
        self.pattern = pattern
        self.ast = rx.parse(pattern)
        self.items = rx.seq_items(rx.strip_groups(self.ast))
        self.group_pos: Dict[int, int] = {}
        for i, it in enumerate(self.items):
            if isinstance(it, rx.Group) and it.kind == "cap":
                self.group_pos[it.index] = i
        self.ngroups = len(rx.groups(self.ast, "cap"))

    def group(self, k: int) -> Optional[rx.Group]:
        i = self.group_pos.get(k)
        return self.items[i] if i is not None else None  # type: ignore[return-value]

    def between(self, a: Optional[int], b: Optional[int]) -> List[rx.Node]:
        i = self.group_pos[a] + 1 if a is not None else 0
        j = self.group_pos[b] if b is not None else len(self.items)
        return self.items[i:j]


def token_class(g: rx.Group) -> Optional[rx.Cls]:
    """group body = one repeated class"""
    b = g.body
    if isinstance(b, rx.Rep) and b.whole is None and isinstance(rx.unwrap(b.body), rx.Cls):
        return rx.unwrap(b.body)  # type: ignore[return-value]
    return None
