"""compose -- interpret the real compile pipeline on pattern skeletons and expose, for every node of
the typed tree, its role (instruction item / operand / deref field), its YAML name, its `times`, the
regex it produced and that regex re-expressed as a *template over its children's regexes*.

Roles are derived from the YAML names exactly as a user reads a rule (operators are transparent, the
children of a mnemonic are operands, the values of a `$deref` are fields) -- never from class names.
"""
from __future__ import annotations

from typing import Any, Dict, List, Optional, Tuple

from .absint import Interp, Path, RaiseEx
from .facts import AnalysisError
from .models import Sym, lift_skeleton
from .values import (NONE, AbsList, Hole, IntV, Join, ListV, Lit, Obj, Str, Unknown, Value)

OPS = ("$and", "$or", "$not", "$and_any_order")
DEREF_FIELDS = ("main_reg", "constant_offset", "register_multiplier", "constant_multiplier")


class NodeInfo:
    def __init__(self, obj: Obj, addr: Tuple[int, ...], role: str, parent: Optional["NodeInfo"]) -> None:
        self.obj, self.addr, self.role, self.parent = obj, addr, role, parent
        self.name: Value = obj.fields.get("name", NONE)
        self.cls = obj.cls.name
        self.children: List[NodeInfo] = []
        self.regex: Optional[Str] = None
        self.tmpl: Optional[Str] = None     # regex with children's regexes replaced by child holes
        self.embed_ok = True
        self.times: Tuple[Any, Any] = (None, None)

    @property
    def name_text(self) -> str:
        if isinstance(self.name, Str):
            return self.name.text() if self.name.is_concrete() else self.name.render()
        if isinstance(self.name, IntV):
            return str(self.name.v)
        return repr(self.name)

    @property
    def op(self) -> Optional[str]:
        t = self.name_text
        return t if t in OPS or t in ("$deref", "times") else None

    @property
    def category(self) -> str:
        t = self.name_text
        if t in OPS:
            return t
        if t == "$deref":
            return "$deref"
        if t == "times":
            return "times"
        if self.role == "deref-prop":
            return "prop"
        for fam in ("&genreg", "&indreg", "&stackreg", "&basereg"):
            if t.startswith(fam) and self.role != "instr":
                return "regcap"      # (an item of the instruction list with such a name is an ordinary instruction capture)
        if t.startswith("&"):
            return "cap"
        return "plain"

    def real_children(self) -> List["NodeInfo"]:
        return [c for c in self.children if c.category != "times"]

    def where(self) -> str:
        return f"{self.role}:{self.name_text}@{'.'.join(map(str, self.addr)) or 'root'}"

    def walk(self):
        yield self
        for c in self.children:
            yield from c.walk()


def child_role(parent_role: str, parent_cat: str) -> str:
    if parent_cat in OPS:
        return parent_role
    if parent_cat == "$deref":
        return "deref-prop"
    if parent_role == "deref-prop":
        return "deref-field"
    if parent_role == "instr":
        return "operand"
    if parent_cat == "times":
        return "times-arg"
    return parent_role + "-child"


def build_info(obj: Obj, addr: Tuple[int, ...], role: str, parent: Optional[NodeInfo]) -> NodeInfo:
    n = NodeInfo(obj, addr, role, parent)
    t = obj.fields.get("times")
    if isinstance(t, Obj):
        lo, hi = t.fields.get("_min_times"), t.fields.get("_max_times")
        n.times = (lo.v if isinstance(lo, IntV) else lo, hi.v if isinstance(hi, IntV) else hi)
    ch = obj.fields.get("children")
    if isinstance(ch, ListV) and ch.absorbed is None:
        r = child_role(role, n.category)
        for i, c in enumerate(ch.items):
            if isinstance(c, Obj):
                n.children.append(build_info(c, addr + (i,), r, n))
    return n


def flatten(s: Str) -> List[Any]:
    out: List[Any] = []
    for a in s.atoms:
        if isinstance(a, Lit):
            out.extend(a)
        else:
            out.append(a)
    return out


def unflatten(units: List[Any]) -> Str:
    atoms: List[Any] = []
    buf = ""
    for u in units:
        if isinstance(u, str) and not isinstance(u, (Hole, Join)):
            buf += u
        else:
            if buf:
                atoms.append(Lit(buf))
                buf = ""
            atoms.append(u)
    if buf:
        atoms.append(Lit(buf))
    return Str(tuple(atoms))


def _unit_eq(a: Any, b: Any) -> bool:
    if isinstance(a, str) and isinstance(b, str):
        return a == b
    if isinstance(a, Hole) and isinstance(b, Hole):
        return a.tag == b.tag
    if isinstance(a, Join) and isinstance(b, Join):
        return a == b
    return False


def substitute_children(parent: Str, kids: List[Tuple[str, Str, str]]) -> Tuple[Str, Dict[str, int]]:
    """replace every verbatim occurrence of each child's regex in the parent's regex by a child hole.
    kids: (hole tag, child regex, hole kind). Returns the template and how often each child was found.
    Longer child regexes are substituted first; equal regexes of different children are assigned in
    order of appearance (round-robin) so that `a a` keeps two distinct holes."""
    units = flatten(parent)
    counts: Dict[str, int] = {k[0]: 0 for k in kids}
    order = sorted(range(len(kids)), key=lambda i: -len(flatten(kids[i][1])))
    # group children with identical regex text
    groups: Dict[str, List[int]] = {}
    for i in order:
        groups.setdefault(kids[i][1].render(), []).append(i)
    done = set()
    for i in order:
        key = kids[i][1].render()
        if key in done:
            continue
        done.add(key)
        members = sorted(groups[key])
        needle = flatten(kids[i][1])
        if not needle:
            continue
        out: List[Any] = []
        j = 0
        occ = 0
        while j < len(units):
            if j + len(needle) <= len(units) and all(_unit_eq(units[j + k], needle[k]) for k in range(len(needle))):
                m = members[occ % len(members)]
                occ += 1
                tag, _, kind = kids[m]
                counts[tag] += 1
                out.append(Hole(tag, kind, True, meta={"child_index": m}))
                j += len(needle)
            else:
                out.append(units[j])
                j += 1
        units = out
    return unflatten(units), counts


class Analysed:
    def __init__(self, path: Path, root: Optional[NodeInfo], regex: Optional[Str], captures: List[str],
                 flags: Dict[str, Optional[bool]]) -> None:
        self.path, self.root, self.regex, self.captures, self.flags = path, root, regex, captures, flags

    @property
    def ok(self) -> bool:
        return self.root is not None and self.regex is not None


def role_kind(role: str) -> str:
    return {"instr": "child_instr", "operand": "child_operand", "deref-field": "child_field",
            "deref-prop": "child_prop"}.get(role, "child_other")


def analyse_skeleton(I: Interp, pattern: Any, root_role: str = "instr") -> List[Analysed]:
    y2r = I.p.find_class("Yaml2Regex")
    holder: Dict[str, Any] = {}

    def thunk(I: Interp) -> Value:
        doc = {"pattern": pattern}
        docv = lift_skeleton(I, doc)
        I.run.user["docv"] = docv
        from .models import new_yaml2regex
        self_obj = new_yaml2regex(I, docv)
        m1 = y2r.find_method("_get_pattern")
        if m1 is None:
            raise AnalysisError("anchor Yaml2Regex._get_pattern not found")
        pats = I.call_func(m1, [], {}, self_obj, None, None)
        from .models import rule_tree_call
        tree = rule_tree_call(I, y2r, self_obj, pats)
        if not isinstance(tree, Obj):
            raise AnalysisError(f"rule tree is {tree!r}")
        root = build_info(tree, (), root_role, None)
        I.run.user["root"] = root
        # the root first (this is what the program does), then every node on its own
        m = tree.cls.find_method("get_regex")
        if m is None:
            raise AnalysisError(f"{tree.cls.name}.get_regex not found")
        top = I.call_func(m, [], {}, tree, None, None)
        for n in root.walk():
            gm = n.obj.cls.find_method("get_regex")
            if gm is None:
                continue
            if n is root:
                n.regex = top if isinstance(top, Str) else None
            else:
                try:
                    r = I.call_func(gm, [], {}, n.obj, None, None)
                except (RaiseEx, AnalysisError):  # a sub-node that cannot be rendered alone
                    r = None
                n.regex = r if isinstance(r, Str) else None
        # the node's template over its children: its own get_regex with the children's get_regex replaced by holes
        for n in root.walk():
            if n.regex is None:
                continue
            ov = {}
            for i, c in enumerate(n.children):
                if c.regex is not None and flatten(c.regex):
                    ov[c.obj.oid] = Str((Hole(f"c{i}", role_kind(c.role), True, meta={"child_index": i}),))
            gm = n.obj.cls.find_method("get_regex")
            I.run.user["regex_override"] = ov
            try:
                t = I.call_func(gm, [], {}, n.obj, None, None)
            except (RaiseEx, AnalysisError):
                t = None
            finally:
                I.run.user["regex_override"] = None
            n.tmpl = t if isinstance(t, Str) else None
        # the whole rule with every capture-group node replaced by a hole: nothing capturing may remain
        ov = {n.obj.oid: Str((Hole(f"cap{i}", "ref", True),)) for i, n in enumerate(root.walk())
              if n.category in ("cap", "regcap")}
        if ov:
            I.run.user["regex_override"] = ov
            try:
                ct = I.call_func(m, [], {}, tree, None, None)
            except (RaiseEx, AnalysisError):
                ct = None
            finally:
                I.run.user["regex_override"] = None
            I.run.user["census_tmpl"] = ct if isinstance(ct, Str) else None
        return top

    out: List[Analysed] = []
    for path in I.explore(thunk):
        flags = {
            "mn_full": path.assumed(("truth", "b", "cfg[MnemonicsFullMatch]")),
            "op_full": path.assumed(("truth", "b", "cfg[OperandsFullMatch]")),
        }
        if path.kind != "return" or not isinstance(path.value, Str):
            out.append(Analysed(path, None, None, [], flags))
            continue
        root: NodeInfo = path.run.user["root"]
        caps: List[str] = []
        for ev in path.events:
            if ev.kind == "construct" and ev.cls == "CapturesManager":
                # the registered names, in registration order: through the manager's public view of them (whatever the
                # manager keeps internally)
                lst = ev.obj.fields.get("_capture_group_references")
                if not isinstance(lst, ListV) and ev.obj.cls.find_method("capture_group_references") is not None:
                    try:
                        lst = I.call_func(ev.obj.cls.find_method("capture_group_references"), [], {}, ev.obj, None, None)
                    except (RaiseEx, AnalysisError):
                        lst = None
                if isinstance(lst, ListV) and lst.absorbed is None:
                    caps = [x.text() if isinstance(x, Str) and x.is_concrete() else repr(x) for x in lst.items]
        for n in root.walk():
            if n.regex is None or n.tmpl is None:
                continue
            kids = [(f"c{i}", c.regex, role_kind(c.role)) for i, c in enumerate(n.children) if c.regex is not None]
            counts: Dict[str, int] = {k[0]: 0 for k in kids}
            lit_run = ""
            for u in flatten(n.tmpl):
                if isinstance(u, str) and not isinstance(u, (Hole, Join)):
                    lit_run += u
                    continue
                if isinstance(u, Hole) and u.tag in counts:
                    counts[u.tag] += 1
                elif isinstance(u, Hole) and u.base is not None and u.xform == ("[1:]",) and u.base.tag in counts and \
                        lit_run.endswith("-(?:0x)?"):
                    # '-' (?:0x)? child[1:] on the path where the child's text starts with '-': the child verbatim, with the
                    # optional 0x slipped in behind its sign
                    counts[u.base.tag] += 1
                elif isinstance(u, Join):
                    for h in u.elem.holes():
                        if h.tag in counts:
                            counts[h.tag] += 1
                lit_run = ""
            n.embed_counts = counts  # type: ignore[attr-defined]
            eq: Dict[str, set] = {}
            for t1, r1, _ in kids:
                eq[t1] = {t2 for t2, r2, _ in kids if r2.render() == r1.render()}
            n.equiv = eq  # type: ignore[attr-defined]
        out.append(Analysed(path, root, path.value, caps, flags))
        out[-1].census_tmpl = path.run.user.get("census_tmpl")  # type: ignore[attr-defined]
        out[-1].input_after = repr(path.run.user.get("docv"))  # type: ignore[attr-defined]
        out[-1].input_before = repr(lift_skeleton(I, {"pattern": pattern}))  # type: ignore[attr-defined]
    return out
