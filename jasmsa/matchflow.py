"""matchflow -- interpret MasterOfPuppets.perform_matching end to end (producer, disassembler,
consumer, observer) with the line parser summarised as 'feeds abstract instructions to the consumer'."""
from __future__ import annotations

import itertools
from typing import Any, Dict, List, Optional, Tuple

from .absint import Interp, Path
from .facts import AnalysisError
from .models import Sym, make_interp
from .values import (NONE, TRUE, FALSE, AbsList, BoolV, EnumV, Hole, ListV, Obj, Str, Unknown, Value)


def parse_summary(I, func, self_val, args, kwargs, node, fr):
    text = args[0] if args else kwargs.get("file")
    cons = args[1] if len(args) > 1 else kwargs.get("iConsumer")
    I.run.event("parse", text=text, consumer=cons, parser=self_val)
    I.run.user.setdefault("parse_calls", []).append((text, cons, self_val))
    if isinstance(cons, Obj):
        m = cons.cls.find_method("consume_instruction")
        if m is not None:
            from .consumerflow import absorb_consumed, list_sizes
            before = list_sizes(cons)
            feed = I.run.user.get("feed")
            if callable(feed):
                # a rule's own listing: concrete Instruction objects, fed in order through whatever the program wired
                for inst in feed(I):
                    I.call_func(m, [inst], {}, cons, node, fr)
                return NONE
            for k in range(1, I.run.user.get("n_insts", 1) + 1):
                inst = Unknown(f"inst{k}", {"truthy": True, "not_none": True,
                                            "expr": f"inst{k}"})
                I.call_func(m, [inst], {}, cons, node, fr)
            if I.run.user.get("abstract_listing", True):
                absorb_consumed(I, cons, before)
    return NONE


def valid_addr_summary(I, func, self_val, args, kwargs, node, fr):
    inst = args[0] if args else kwargs.get("inst")
    I.run.event("valid_addr_observe", inst=inst)
    return Unknown(f"tagged({I.expr_of(inst)})", {"truthy": True, "not_none": True,
                                                   "expr": f"tagged({I.expr_of(inst)})"})


def wrapped_observer(o: Value) -> Value:
    """the observer object behind an installed instruction hook: the object itself, the receiver of a bound method
    (`obs.observe_instruction`), or the one object a lambda's body refers to (through a default argument, bound when the
    lambda was written, or a free variable, looked up now - as a call would)"""
    import ast as _ast
    from .values import FuncV, LambdaV
    if isinstance(o, FuncV) and isinstance(o.self_val, Obj):
        return o.self_val
    if isinstance(o, LambdaV):
        params = {x.arg for x in o.node.args.posonlyargs + o.node.args.args + o.node.args.kwonlyargs}
        objs = []
        for n in _ast.walk(o.node.body):
            if isinstance(n, _ast.Name):
                v = o.defaults.get(n.id) if n.id in o.defaults else (None if n.id in params else o.frame.locals.get(n.id))
                if isinstance(v, Obj) and all(v is not x for x in objs):
                    objs.append(v)
        if len(objs) == 1:
            return objs[0]
    return o


def observer_name(o: Value) -> str:
    w = wrapped_observer(o)
    return w.cls.name if isinstance(w, Obj) else repr(w)


class MatchScenario:
    def __init__(self, cfg: Dict[str, Any], path: Path, mop: Obj) -> None:
        self.cfg, self.path, self.mop = cfg, path, mop

    def events(self, kind: str) -> List[Any]:
        return [e for e in self.path.events if e.kind == kind]

    def entered(self, qual: str) -> List[Any]:
        return [e for e in self.path.events if e.kind == "enter" and e.func == qual]


def produce_regex_summary(I, func, self_val, args, kwargs, node, fr):
    # what the config singleton holds at the moment the regex is generated (the node classes read the full-match flags now)
    from .models import cfg_key
    from .values import DictV as _DictV
    cfg = I.run.const_cache.get(("$cfg", "obj"))
    store = cfg.fields.get("global_info") if isinstance(cfg, Obj) else None
    snap = {cfg_key(k): I.expr_of(v) for k, v in store.pairs} if isinstance(store, _DictV) else {}
    I.run.event("produce_regex", y2r=self_val, config=snap)
    return Str((Hole("REGEX", "regex", True),))


def load_file_summary(I, func, self_val, args, kwargs, node, fr):
    f = args[0] if args else kwargs.get("file")
    I.run.event("load_file", file=f)
    docs = I.run.user.get("docs", {})
    doc = docs.get(I.expr_of(f), I.run.user.get("rule_doc"))
    if doc is None:
        return Unknown("loaded_yaml", {"truthy": True, "not_none": True})
    from .models import lift_skeleton
    return lift_skeleton(I, doc)


def yaml_load_summary(I, func, recv, args, kwargs, node, fr):
    """yaml.load(stream=open(<PATH>).read(), ...): the document registered for that path in run.user['docs']"""
    import re as _re
    stream = kwargs.get("stream", args[0] if args else None)
    ex = I.expr_of(stream)
    m = _re.search(r"open\((?:file=)?(<[^>]*>)", ex)
    key = m.group(1) if m else ex
    I.run.event("load_file", file=Str.lit(key) if False else Unknown(key, {"expr": key}))
    docs = I.run.user.get("docs", {})
    doc = docs.get(key, I.run.user.get("rule_doc"))
    if doc is None:
        return Unknown("loaded_yaml", {"truthy": True, "not_none": True})
    from .models import lift_skeleton
    return lift_skeleton(I, doc)


YAML_SUMMARIES = {"extern:yaml.load": yaml_load_summary, "extern:yaml.safe_load": yaml_load_summary}


def match_interp(program) -> Interp:
    # the tagging observer's entry point, wherever in its class hierarchy it is defined
    vo = program.find_class("ValidAddrObserver")
    vm = vo.find_method("observe_instruction") if vo is not None else None
    return make_interp(program, {"ObjdumpParserManual.parse": parse_summary,
                                 (vm.qualname if vm is not None else "ValidAddrObserver.observe_instruction"): valid_addr_summary,
                                 "Yaml2Regex.produce_regex": produce_regex_summary,
                                 "Yaml2Regex.load_file": load_file_summary}, max_paths=60000)


# thorough tier: extra rule configurations every whole-flow rule is also judged under (set by /verif/check)
EXTRA_CONFIGS: List[Dict[str, Any]] = []
THOROUGH_CONFIGS: List[Dict[str, Any]] = [
    {"sections": [".text"]},
    {"sections": [".plt", ".text"], "valid_addr_range": {"min": Sym("RANGE_MIN"), "max": Sym("RANGE_MAX")}},
    {"style": "att", "mnemonics-full-match": True, "operands-full-match": True},
    {"valid_addr_range": {"min": Sym("RANGE_MIN"), "max": Sym("RANGE_MAX")}, "operands-full-match": True, "style": "att"},
]


def match_scenarios(I: Interp, file_types=("assembly", "binary"), return_modes=("bool", "matched_addrs_list",
                    "all_instructions_string"), search_modes=("first_find", "all_finds"), only_addrs=(False, True),
                    configs=({}, {"valid_addr_range": {"min": Sym("RANGE_MIN"), "max": Sym("RANGE_MAX")}}),
                    repeat: int = 1, feed=None, macros: Value = NONE) -> List[MatchScenario]:
    """MasterOfPuppets(match_config).perform_matching() for every combination; `repeat` > 1 calls
    perform_matching several times on the same object (results of the last call are returned)."""
    p = I.p
    mop = p.find_class("MasterOfPuppets")
    mc_cls = p.find_class("MatchConfig")
    E = lambda cls, m: EnumV(p.find_class(cls), m)
    out: List[MatchScenario] = []
    if EXTRA_CONFIGS:
        have = [repr(sorted(c)) for c in configs]
        configs = tuple(configs) + tuple(c for c in EXTRA_CONFIGS if repr(sorted(c)) not in have)
    for ft, rm, sm, oa, cf in itertools.product(file_types, return_modes, search_modes, only_addrs, configs):
        cfg = {"file_type": ft, "return_mode": rm, "search_mode": sm, "only_addr": oa, "config": cf}

        def thunk(I: Interp, ft=ft, rm=rm, sm=sm, oa=oa, cf=cf) -> Value:
            I.run.user["rule_doc"] = {"config": cf, "pattern": ["nop"]}
            if feed is not None:
                I.run.user["feed"] = feed
            mc = I.construct(mc_cls, [], {
                "pattern_pathstr": Str((Hole("PATTERN_PATH", "path", True),)),
                "input_file": Str((Hole("INPUT_FILE", "path", True),)),
                "input_file_type": E("InputFileType", ft), "return_only_address": TRUE if oa else FALSE,
                "return_mode": E("MatchingReturnMode", rm), "matching_mode": E("MatchingSearchMode", sm),
                "macros": macros}, None, None)
            o = I.construct(mop, [], {"match_config": mc}, None, None)
            I.run.user["mop"] = o
            I.run.user["init_events"] = len(I.run.events)
            m = mop.find_method("perform_matching")
            if m is None:
                raise AnalysisError("anchor MasterOfPuppets.perform_matching not found")
            r: Value = NONE
            for k in range(repeat):
                I.run.user.setdefault("call_marks", []).append(len(I.run.events))
                r = I.call_func(m, [], {}, o, None, None)
                I.run.user.setdefault("results", []).append(r)
            return r
        for path in I.explore(thunk):
            out.append(MatchScenario(cfg, path, path.run.user.get("mop")))
    return out


def op_facts(I: Interp, events: List[Any]) -> Dict[str, Any]:
    """what one operation did, read off its slice of the event list"""
    facts: Dict[str, Any] = {"cfg_reads": [], "observers": [], "argv": [], "regex": [], "captures_mgr": 0}
    for e in events:
        if e.kind == "cfg_get":
            facts["cfg_reads"].append((e.key, I.expr_of(e.value) if not isinstance(e.value, Obj) else
                                       f"{e.value.cls.name}({', '.join(k + '=' + I.expr_of(v.fields.get('hex')) if isinstance(v, Obj) else k for k, v in sorted(e.value.fields.items()))})"))
        elif e.kind == "extern_call" and e.name.endswith("subprocess.run"):
            a = e.args[0] if e.args else e.kwargs.get("args")
            def arg_text(x):
                # a member of a str-valued enum IS its value when handed to the OS as an argument
                if isinstance(x, EnumV) and I.bi.type_test(x, "str", "argv element"):
                    return I.expr_of(I.get_attr(x, "value", None, None))
                return I.expr_of(x)
            facts["argv"].append(I.expr_of(a) if not isinstance(a, ListV) else
                                 "[" + ", ".join(arg_text(x) for x in (a.items if a.absorbed is None else [a.absorbed])) + "]")
        elif e.kind == "extern_call" and e.name.startswith("regex."):
            facts["regex"].append((e.name, tuple(sorted((k, I.expr_of(v)) for k, v in e.kwargs.items()))))
        elif e.kind == "construct" and e.cls == "CompleteConsumer":
            facts["consumer"] = e.obj
    c = facts.pop("consumer", None)
    if c is not None:
        obs = c.fields.get("instruction_observers")
        facts["observers"] = [observer_name(o) for o in obs.items] if isinstance(obs, ListV) else [repr(obs)]
    return facts


def run_sequence(I: Interp, ops: List[Dict[str, Any]]) -> List[Tuple[Path, List[Dict[str, Any]], List[Value]]]:
    """perform the operations one after another in ONE run (one process): per path, the facts and result of each"""
    p = I.p
    mop = p.find_class("MasterOfPuppets")
    mc_cls = p.find_class("MatchConfig")
    E = lambda cls, m: EnumV(p.find_class(cls), m)

    def thunk(I: Interp) -> Value:
        I.run.user["docs"] = {}
        marks, results = [], []
        I.run.user["marks"], I.run.user["results"] = marks, results
        for k, op in enumerate(ops):
            path_tag = f"PATTERN_{k}"
            I.run.user["docs"][f"<{path_tag}>"] = {"config": op.get("config", {}), "pattern": ["nop"]}
            mc = I.construct(mc_cls, [], {
                "pattern_pathstr": Str((Hole(path_tag, "path", True),)),
                "input_file": Str((Hole(f"INPUT_{k}", "path", True),)),
                "input_file_type": E("InputFileType", op.get("file_type", "assembly")),
                "return_only_address": TRUE if op.get("only_addr") else FALSE,
                "return_mode": E("MatchingReturnMode", op.get("return_mode", "matched_addrs_list")),
                "matching_mode": E("MatchingSearchMode", op.get("search_mode", "all_finds")),
                "macros": NONE}, None, None)
            marks.append(len(I.run.events))
            o = I.construct(mop, [], {"match_config": mc}, None, None)
            results.append(I.call_func(mop.find_method("perform_matching"), [], {}, o, None, None))
        marks.append(len(I.run.events))
        I.run.user["marks"], I.run.user["results"] = marks, results
        return NONE
    out = []
    for path in I.explore(thunk):
        if path.kind != "return":
            continue
        marks = path.run.user["marks"]
        facts = [op_facts(I, path.events[marks[i]:marks[i + 1]]) for i in range(len(ops))]
        out.append((path, facts, path.run.user["results"]))
    return out


def last_op_outcomes(I: Interp, ops: List[Dict[str, Any]]) -> set:
    """outcome of the LAST operation of a sequence run in one process, on every path on which the earlier operations
    completed: ('raise', exception type) or ('return', facts of that operation + result)"""
    import re as _re
    p = I.p
    mop = p.find_class("MasterOfPuppets")
    mc_cls = p.find_class("MatchConfig")
    E = lambda cls, m: EnumV(p.find_class(cls), m)

    def thunk(I: Interp) -> Value:
        I.run.user["docs"] = {}
        r: Value = NONE
        for k, op in enumerate(ops):
            tag = f"PATTERN_{k}"
            I.run.user["docs"][f"<{tag}>"] = {"config": op.get("config", {}), "pattern": op.get("pattern", ["nop"])}
            I.run.user["op_index"] = k
            I.run.user["last_mark"] = len(I.run.events)
            mc = I.construct(mc_cls, [], {
                "pattern_pathstr": Str((Hole(tag, "path", True),)), "input_file": Str((Hole(f"INPUT_{k}", "path", True),)),
                "input_file_type": E("InputFileType", op.get("file_type", "assembly")),
                "return_only_address": TRUE if op.get("only_addr") else FALSE,
                "return_mode": E("MatchingReturnMode", op.get("return_mode", "matched_addrs_list")),
                "matching_mode": E("MatchingSearchMode", op.get("search_mode", "all_finds")), "macros": NONE}, None, None)
            o = I.construct(mop, [], {"match_config": mc}, None, None)
            r = I.call_func(mop.find_method("perform_matching"), [], {}, o, None, None)
        return r
    out = set()
    last = len(ops) - 1

    def norm(x: str) -> str:
        return _re.sub(r"#\d+", "", x).replace(f"_{last}>", "_L>")
    for path in I.explore(thunk):
        if path.run.user.get("op_index") != last:
            continue        # an earlier operation failed: not a history this rule is about
        if path.kind == "raise":
            out.add(("raise", path.exc.type_name))
            continue
        f = op_facts(I, path.events[path.run.user["last_mark"]:])
        out.add(("return", norm(str((tuple(f["cfg_reads"]), tuple(f["observers"]), tuple(f["argv"]), tuple(f["regex"]),
                                     I.expr_of(path.value))))))
    return out
