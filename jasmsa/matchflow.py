"""matchflow -- interpret MasterOfPuppets.perform_matching end to end (producer, disassembler,
consumer, observer) with the line parser summarised as 'feeds abstract instructions to the consumer'."""
from __future__ import annotations

import itertools
from typing import Any, Dict, List, Optional

from .absint import Interp, Path
from .facts import AnalysisError
from .models import make_interp
from .values import (NONE, TRUE, FALSE, AbsList, BoolV, EnumV, Hole, ListV, Obj, Str, Unknown, Value)


def parse_summary(I, func, self_val, args, kwargs, node, fr):
    text = args[0] if args else kwargs.get("file")
    cons = args[1] if len(args) > 1 else kwargs.get("iConsumer")
    I.run.event("parse", text=text, consumer=cons, parser=self_val)
    I.run.user.setdefault("parse_calls", []).append((text, cons, self_val))
    if isinstance(cons, Obj):
        m = cons.cls.find_method("consume_instruction")
        if m is not None:
            for k in (1, 2):
                inst = Unknown(f"inst{k}", {"truthy": True, "not_none": True,
                                            "expr": f"inst{k}"})
                I.call_func(m, [inst], {}, cons, node, fr)
    return NONE


def valid_addr_summary(I, func, self_val, args, kwargs, node, fr):
    inst = args[0] if args else kwargs.get("inst")
    I.run.event("valid_addr_observe", inst=inst)
    return Unknown(f"tagged({I.expr_of(inst)})", {"truthy": True, "not_none": True,
                                                   "expr": f"tagged({I.expr_of(inst)})"})


class MatchScenario:
    def __init__(self, cfg: Dict[str, Any], path: Path, mop: Obj) -> None:
        self.cfg, self.path, self.mop = cfg, path, mop

    def events(self, kind: str) -> List[Any]:
        return [e for e in self.path.events if e.kind == kind]

    def entered(self, qual: str) -> List[Any]:
        return [e for e in self.path.events if e.kind == "enter" and e.func == qual]


def match_interp(program) -> Interp:
    return make_interp(program, {"ObjdumpParserManual.parse": parse_summary,
                                 "ValidAddrObserver.observe_instruction": valid_addr_summary}, max_paths=60000)


def match_scenarios(I: Interp, file_types=("assembly", "binary"), return_modes=("bool", "matched_addrs_list",
                    "all_instructions_string"), search_modes=("first_find", "all_finds"), only_addrs=(False, True),
                    ranges=(False, True)) -> List[MatchScenario]:
    p = I.p
    mop = p.find_class("MasterOfPuppets")
    mc_cls = p.find_class("MatchConfig")
    E = lambda cls, m: EnumV(p.find_class(cls), m)
    out: List[MatchScenario] = []
    for ft, rm, sm, oa, rg in itertools.product(file_types, return_modes, search_modes, only_addrs, ranges):
        cfg = {"file_type": ft, "return_mode": rm, "search_mode": sm, "only_addr": oa, "range": rg}

        def thunk(I: Interp, ft=ft, rm=rm, sm=sm, oa=oa, rg=rg) -> Value:
            mc = I.construct(mc_cls, [], {
                "pattern_pathstr": Str((Hole("PATTERN_PATH", "path", True),)),
                "input_file": Str((Hole("INPUT_FILE", "path", True),)),
                "input_file_type": E("InputFileType", ft), "return_only_address": TRUE if oa else FALSE,
                "return_mode": E("MatchingReturnMode", rm), "matching_mode": E("MatchingSearchMode", sm),
                "macros": NONE}, None, None)
            cfgobj = I.construct(p.find_class("JASMConfig"), [], {}, None, None)
            assert isinstance(cfgobj, Obj)
            cfgobj.fields["$valid_addr_range"] = (Unknown("RANGE", {"truthy": True, "not_none": True}) if rg else NONE)
            cfgobj.fields["$assembly_style"] = E("DisassStyle", "att")
            o = Obj(mop, {"match_config": mc, "global_config": cfgobj,
                          "regex_rule": Str((Hole("REGEX", "regex", True),))})
            I.run.user["mop"] = o
            m = mop.find_method("perform_matching")
            if m is None:
                raise AnalysisError("anchor MasterOfPuppets.perform_matching not found")
            return I.call_func(m, [], {}, o, None, None)
        for path in I.explore(thunk):
            out.append(MatchScenario(cfg, path, path.run.user.get("mop")))
    return out
