"""models -- how the abstract interpreter is set up for JASM: summaries for the config singleton,
abstract names (categories), abstract child nodes, and the two ways templates are obtained:

* class templates: `get_regex` of one node class on an abstract `self` (children = list of opaque nodes)
* pipeline templates: the real compile pipeline (`Yaml2Regex.produce_regex`) interpreted on a *pattern
  skeleton* -- a concrete YAML shape whose names are abstract (category holes).
"""
from __future__ import annotations

import ast

from typing import Any, Callable, Dict, List, Optional, Tuple

from .absint import Interp, Path, RaiseEx
from .facts import AnalysisError, Program
from .values import (NONE, AbsList, DictV, Hole, IntV, ListV, Obj, Str, SymBool, TupleV, Unknown, Value)


# ------------------------------------------------------------------ abstract names
def _all_false(op: str, arg: Any) -> Optional[bool]:
    return False


def _plain_maybe_hex(op: str, arg: Any) -> Optional[bool]:
    # a user name that is none of the reserved words, but may or may not look like "10h" / "ah"
    if op == "endswith" and arg == "h":
        return None
    if op == "eq" and isinstance(arg, str) and arg in ("ah", "bh", "ch", "dh"):
        return None
    return False


def plain_name(tag: str, maybe_hex: bool = False) -> Str:
    """user text of a mnemonic/operand: not a reserved word, no '&', '$', '@' prefix, metachar free"""
    return Str((Hole(tag, "name", True, _plain_maybe_hex if maybe_hex else _all_false, meta={"cat": "plain"}),))


def capture_oracle(op: str, arg: Any) -> Optional[bool]:
    if op == "startswith":
        return arg == "&" or arg == ""
    return False


def capture_name(tag: str) -> Str:
    """a generic capture name `&xyz` (not one of the register families)"""
    return Str((Hole(tag, "name", True, capture_oracle, meta={"cat": "capture"}),))


class Sym:
    """marker used in pattern skeletons for an abstract plain name"""

    def __init__(self, tag: str) -> None:
        self.tag = tag

    def __repr__(self) -> str:
        return f"<{self.tag}>"

    def __hash__(self) -> int:
        return hash(self.tag)

    def __eq__(self, o: object) -> bool:
        return isinstance(o, Sym) and o.tag == self.tag


def lift_skeleton(I: Interp, x: Any) -> Value:
    if isinstance(x, Sym):
        return plain_name(x.tag)
    if isinstance(x, dict):
        return DictV([(lift_skeleton(I, k), lift_skeleton(I, v)) for k, v in x.items()])
    if isinstance(x, list):
        return ListV([lift_skeleton(I, v) for v in x])
    if isinstance(x, tuple):
        return TupleV([lift_skeleton(I, v) for v in x])
    return I.lift(x)


# ------------------------------------------------------------------ summaries
def cfg_key(v: Value) -> str:
    from .values import EnumV
    if isinstance(v, EnumV):
        return v.member
    if isinstance(v, Str) and v.is_concrete():
        return v.text()
    return repr(v)


def std_summaries(program: Program) -> Dict[str, Callable]:
    """The process-wide config singleton: one JASMConfig object per run (= per process) whose `global_info` is an
    ordinary dict; get_info / _set_info are the repository's own methods, interpreted, with an event recorded."""
    cfg_cls = program.find_class("JASMConfig")
    if cfg_cls is not None and (cfg_cls.find_method("global_info") is not None or "global_info" in getattr(cfg_cls, "setters", {})):
        # the model below is the class as written: ONE dict per process, created by __new__. A store behind a property
        # (per thread, per context, lazily rebuilt ...) is not that
        raise AnalysisError("JASMConfig.global_info is not a plain attribute any more: the singleton model does not apply")

    def the_config(I: Interp, call=None) -> Obj:
        """the singleton. `JASMConfig()` is __new__ (the one object) followed by __init__ - on EVERY call, when the class
        defines one; get_instance() goes through `JASMConfig()` only the first time"""
        o = I.run.const_cache.get(("$cfg", "obj"))  # one object per run
        init = cfg_cls.find_method("__init__") if cfg_cls is not None else None
        if o is None:
            o = Obj(cfg_cls, {"global_info": DictV([])})
            I.run.const_cache[("$cfg", "obj")] = o
            if init is not None:
                I.call_func(init, *(call or ([], {})), o, None, None)
        elif call is not None and init is not None:
            I.call_func(init, call[0], call[1], o, None, None)
        return o  # type: ignore[return-value]

    def s_instance(I, func, self_val, args, kwargs, node, fr):
        return the_config(I)

    def s_call(I, func, self_val, args, kwargs, node, fr):
        return the_config(I, (list(args), dict(kwargs)))

    def param(func, args, kwargs, i):
        """the i-th parameter (after self) of a config accessor, however the call passed it"""
        a = func.node.args
        names = [x.arg for x in a.posonlyargs + a.args + a.kwonlyargs if x.arg not in ("self", "cls")]
        if i < len(args):
            return args[i]
        if i < len(names) and names[i] in kwargs:
            return kwargs[names[i]]
        raise AnalysisError(f"config accessor {func.qualname}: parameter {i} not passed")

    def s_get_info(I, func, self_val, args, kwargs, node, fr):
        k = cfg_key(param(func, args, kwargs, 0))
        store = the_config(I).fields["global_info"]
        was_set = isinstance(store, DictV) and any(cfg_key(kk) == k for kk, _ in store.pairs)
        val = I.call_func(func, args, kwargs, self_val, node, fr, skip_summary=True)
        if val is NONE and not was_set:
            # never loaded in this run: an opaque value (what an earlier, unknown, history left there)
            val = Unknown(f"cfg[{k}]", {"cfg_key": k})
        I.run.event("cfg_get", key=k, node=node, func=(fr.func.qualname if fr and fr.func else ""),
                    module=(fr.module if fr else ""), value=val, was_set=was_set)
        return val

    def s_set_info(I, func, self_val, args, kwargs, node, fr):
        k = cfg_key(param(func, args, kwargs, 0))
        v = param(func, args, kwargs, 1)
        I.run.event("cfg_set", key=k, value=v, node=node, func=(fr.func.qualname if fr and fr.func else ""))
        return I.call_func(func, args, kwargs, self_val, node, fr, skip_summary=True)

    # the accessors are recognised by what they do to the store (a private setter may carry any name): the setter is the
    # method that assigns self.global_info[<param>] = <param>, the getter the one that returns a read of it
    out = {"JASMConfig.__call__": s_call, "JASMConfig.get_instance": s_instance}
    setters, getters = [], []
    if cfg_cls is not None:
        for name, fi in cfg_cls.methods.items():
            a = fi.node.args
            nparams = len([x for x in a.posonlyargs + a.args + a.kwonlyargs if x.arg not in ("self", "cls")])

            def on_store(n):
                return isinstance(n, ast.Attribute) and n.attr == "global_info" and isinstance(n.value, ast.Name) and \
                    n.value.id in ("self", "cls")
            stores = [n for n in ast.walk(fi.node) if isinstance(n, ast.Subscript) and isinstance(n.ctx, ast.Store) and on_store(n.value)]
            reads = [n for n in ast.walk(fi.node) if isinstance(n, ast.Return) and n.value is not None and
                     any(on_store(m) for m in ast.walk(n.value))]
            pnames = [x.arg for x in a.posonlyargs + a.args + a.kwonlyargs if x.arg not in ("self", "cls")]
            keyed_reads = [r for r in reads if pnames and any(isinstance(m, ast.Name) and m.id == pnames[0] for m in ast.walk(r.value))]
            if stores and nparams == 2 and not name.startswith("__"):
                setters.append(name)
            elif keyed_reads and nparams >= 1 and not stores and not name.startswith("__"):
                getters.append(name)       # returns the store's entry for its first parameter (a default may follow)
        if "get_info" in getters:
            getters = ["get_info"]         # the public accessor, when it is one of them
    if len(setters) != 1 or len(getters) != 1:
        raise AnalysisError(f"JASMConfig: expected one setter and one getter of the global store, found {setters} / {getters}")
    out[f"JASMConfig.{getters[0]}"] = s_get_info
    out[f"JASMConfig.{setters[0]}"] = s_set_info
    return out


def new_yaml2regex(I: Interp, docv: Value, terminal: Value = NONE) -> Obj:
    """a Yaml2Regex object as the program makes it: the real __init__ runs (whatever state it sets up exists afterwards),
    with the read of the rule file replaced by the skeleton document. The two full-match flags that __init__ loaded from the
    (config-less) skeleton are then forgotten again - unset reads as opaque - so the compile is explored under all four
    settings, as for an object whose rule file carried any of them."""
    y2r = I.p.find_class("Yaml2Regex")
    if y2r is None:
        raise AnalysisError("anchor class Yaml2Regex not found")
    if y2r.find_method("load_file") is None:
        raise AnalysisError("anchor Yaml2Regex.load_file not found")
    prev = I.summaries.get("Yaml2Regex.load_file")
    I.summaries["Yaml2Regex.load_file"] = lambda I_, f, s_, a, k, n, fr: docv
    try:
        o = I.construct(y2r, [Str((Hole("RULE", "path", True),))] + ([] if terminal is NONE else [terminal]), {}, None, None)
    finally:
        if prev is None:
            I.summaries.pop("Yaml2Regex.load_file", None)
        else:
            I.summaries["Yaml2Regex.load_file"] = prev
    if not isinstance(o, Obj):
        raise AnalysisError(f"Yaml2Regex(...) gives {o!r}")
    cfg = I.run.const_cache.get(("$cfg", "obj"))
    store = cfg.fields.get("global_info") if isinstance(cfg, Obj) else None
    if isinstance(store, DictV):
        store.pairs[:] = [(k, v) for k, v in store.pairs if cfg_key(k) not in ("MnemonicsFullMatch", "OperandsFullMatch")]
    return o


def rule_tree_call(I: Interp, y2r, self_obj, pats) -> Value:
    """the typed rule tree Yaml2Regex builds from the expanded patterns: the private step of produce_regex that
    receives what _get_pattern returned (found by that role when it is not called _generate_rule_tree)"""
    m = y2r.find_method("_generate_rule_tree")
    kw = "patterns"
    if m is None:
        pr = y2r.find_method("produce_regex")
        if pr is None:
            raise AnalysisError("anchor Yaml2Regex.produce_regex not found")
        src: Optional[str] = None
        for st in ast.walk(pr.node):
            if isinstance(st, ast.Assign) and isinstance(st.value, ast.Call) and isinstance(st.value.func, ast.Attribute) and \
                    st.value.func.attr == "_get_pattern" and isinstance(st.targets[0], ast.Name):
                src = st.targets[0].id
        cands = []
        for c in ast.walk(pr.node):
            if isinstance(c, ast.Call) and isinstance(c.func, ast.Attribute) and isinstance(c.func.value, ast.Name) and \
                    c.func.value.id == "self" and c.func.attr != "_get_pattern":
                uses = [(None, a) for a in c.args] + [(k.arg, k.value) for k in c.keywords]
                for name, a in uses:
                    if isinstance(a, ast.Name) and a.id == src:
                        cands.append((c.func.attr, name))
        if len(cands) != 1 or y2r.find_method(cands[0][0]) is None:
            raise AnalysisError(f"anchor: the tree-building step of Yaml2Regex.produce_regex was not identified ({cands})")
        m, kw = y2r.find_method(cands[0][0]), cands[0][1]
    if kw is None:
        return I.call_func(m, [pats], {}, self_obj, None, None)
    return I.call_func(m, [], {kw: pats}, self_obj, None, None)


def child_hook(I: Interp, f: Unknown, args, kwargs, node, fr) -> Optional[Value]:
    """opaque child nodes: child.get_regex() is a hole of the child's kind"""
    recv = f.meta.get("recv")
    if isinstance(recv, Unknown) and f.meta.get("attr") == "get_regex" and recv.meta.get("childnode"):
        kind = recv.meta.get("child_kind", "child")
        return Str((Hole(recv.tag + ".regex", kind, recv.meta.get("regex_truthy")),))
    return None


def make_interp(program: Program, extra: Optional[Dict[str, Callable]] = None, **kw) -> Interp:
    s = std_summaries(program)
    if extra:
        s.update(extra)
    kw.setdefault("max_paths", 4000)
    kw.setdefault("max_steps", 150000)
    I = Interp(program, s, **kw)
    I.unknown_call_hook = child_hook
    return I


def opaque_child(tag: str = "child", kind: str = "child") -> Unknown:
    return Unknown(tag, {"childnode": True, "child_kind": kind, "truthy": True, "not_none": True})


# ------------------------------------------------------------------ node construction
def times_obj(I: Interp, lo: Any, hi: Any) -> Value:
    cls = I.p.find_class("TimesType")
    lo_v = lo if isinstance(lo, Value) else IntV(lo)
    hi_v = hi if isinstance(hi, Value) else IntV(hi)
    return I.construct(cls, [], {"_min_times": lo_v, "_max_times": hi_v}, None, None)


def untyped_node(I: Interp, name: Value, times: Value, children: Value, ctx: Value) -> Value:
    data = I.construct(I.p.find_class("PatternNodeData"), [],
                       {"name": name, "times": times, "children": children, "parent": NONE,
                        "shared_context": ctx}, None, None)
    return I.construct(I.p.find_class("PatternNodeTmpUntyped"), [data], {}, None, None)


def typed_node(I: Interp, cls_name: str, name: Value, times: Value, children: Value, ctx: Value,
               extra_args: Optional[List[Value]] = None) -> Obj:
    u = untyped_node(I, name, times, children, ctx)
    o = I.construct(I.p.find_class(cls_name), [u] + list(extra_args or []), {}, None, None)
    assert isinstance(o, Obj)
    return o


def class_template_paths(I: Interp, cls_name: str, name: Value, times: Tuple[Any, Any], children: Value,
                         ctx: Optional[Value] = None, extra_args: Optional[List[Value]] = None,
                         method: str = "get_regex") -> List[Path]:
    def thunk(I: Interp) -> Value:
        c = ctx if ctx is not None else Unknown("shared_context", {"truthy": True})
        o = typed_node(I, cls_name, name, times_obj(I, *times), children, c, extra_args)
        m = o.cls.find_method(method)
        if m is None:
            raise AnalysisError(f"{cls_name}.{method} not found")
        return I.call_func(m, [], {}, o, None, None)
    return I.explore(thunk)


# ------------------------------------------------------------------ pipeline on skeletons
class Compiled:
    def __init__(self, path: Path, regex: Optional[Str], tree: Optional[Obj], captures: List[Value]) -> None:
        self.path, self.regex, self.tree, self.captures = path, regex, tree, captures


def compile_skeleton(I: Interp, pattern: Any, config: Optional[dict] = None) -> List[Compiled]:
    """Interpret Yaml2Regex(...)._get_pattern / _generate_rule_tree / get_regex on a skeleton document."""
    y2r = I.p.find_class("Yaml2Regex")
    out: List[Compiled] = []
    holder: Dict[str, Any] = {}

    def thunk(I: Interp) -> Value:
        doc = {"pattern": pattern}
        self_obj = new_yaml2regex(I, lift_skeleton(I, doc))
        pats = I.call_func(y2r.find_method("_get_pattern"), [], {}, self_obj, None, None)
        tree = rule_tree_call(I, y2r, self_obj, pats)
        I.run.user["tree"] = tree
        if not isinstance(tree, Obj):
            raise AnalysisError(f"rule tree is {tree!r}")
        m = tree.cls.find_method("get_regex")
        return I.call_func(m, [], {}, tree, None, None)

    for path in I.explore(thunk):
        tree = path.run.user.get("tree") if path.kind == "return" else None
        caps: List[Value] = []
        for ev in path.events:
            if ev.kind == "construct" and ev.cls == "CapturesManager":
                lst = ev.obj.fields.get("_capture_group_references")
                if not isinstance(lst, ListV) and ev.obj.cls.find_method("capture_group_references") is not None:
                    try:
                        lst = I.call_func(ev.obj.cls.find_method("capture_group_references"), [], {}, ev.obj, None, None)
                    except (RaiseEx, AnalysisError):
                        lst = None
                caps = list(lst.items) if isinstance(lst, ListV) and lst.absorbed is None else []
        out.append(Compiled(path, path.value if path.kind == "return" and isinstance(path.value, Str) else None,
                            tree, caps))
    return out


def tree_shape(node: Value) -> Any:
    """(class name, [children shapes]) of a typed tree"""
    if isinstance(node, Obj):
        ch = node.fields.get("children")
        kids = []
        if isinstance(ch, ListV) and ch.absorbed is None:
            kids = [tree_shape(c) for c in ch.items]
        return (node.cls.name, kids)
    return (repr(node), [])
