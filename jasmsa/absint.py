"""absint -- abstract interpreter over the repository's Python subset.

One *run* follows one path; undetermined branches ask `Run.assume`, and `Interp.explore`
enumerates all choice sequences by re-execution (stateless search), so the heap can be
ordinary mutable Python objects.  Nothing of jasm is imported: the interpreter walks the
`ast` of the working tree with abstract values (values.py).
"""
from __future__ import annotations

import ast
from typing import Any, Callable, Dict, List, Optional, Tuple

from .facts import AnalysisError, ClassInfo, FuncInfo, Program
from .values import *  # noqa: F401,F403
from .values import (NONE, TRUE, FALSE, AbsList, BoolV, ClassV, DictV, EnumV, ExcV, Extern, FloatV, FuncV, Hole,
                     IntV, Join, LambdaV, ListV, Lit, ModuleV, Obj, SetV, Str, SuperV, SymBool, TupleV, Unknown,
                     Value)


class Unsupported(AnalysisError):
    def __init__(self, msg: str, node: Optional[ast.AST] = None, module: str = "") -> None:
        loc = f" at {module}:{getattr(node, 'lineno', '?')}" if node is not None else ""
        super().__init__(f"unsupported construct: {msg}{loc}")


class ReturnEx(Exception):
    def __init__(self, value: Value) -> None:
        self.value = value


class RaiseEx(Exception):
    def __init__(self, exc: ExcV) -> None:
        self.exc = exc


class BreakEx(Exception):
    pass


class ContinueEx(Exception):
    pass


class PathLimit(AnalysisError):
    pass


TRUNCATED: List[str] = []


class Frame:
    def __init__(self, module: str, func: Optional[FuncInfo], locals_: Dict[str, Value],
                 closure: Optional[Dict[str, Value]] = None, self_val: Optional[Value] = None,
                 def_cls: Optional[ClassInfo] = None) -> None:
        self.module, self.func, self.locals, self.closure = module, func, locals_, closure
        self.self_val, self.def_cls = self_val, def_cls
        self.abs_loop: List[str] = []   # sources of the abstract loops we are inside
        self.try_depth = 0


class Event:
    def __init__(self, kind: str, **kw: Any) -> None:
        self.kind = kind
        self.__dict__.update(kw)

    def __repr__(self) -> str:
        d = {k: v for k, v in self.__dict__.items() if k != "kind"}
        return f"Event({self.kind}, {d})"


# qualified names of every repository function the interpreter entered in this process (reported as evidence)
INTERPRETED: set = set()
import time as _t0mod
PROCESS_START = _t0mod.time()


class Run:
    """one path"""

    def __init__(self, prefix: List[int]) -> None:
        self.prefix = prefix
        self.trace: List[Tuple[int, int, str]] = []   # (n alternatives, chosen, label)
        self.assumptions: Dict[Any, bool] = {}
        self.conds: List[Tuple[Any, bool, str]] = []
        self.events: List[Event] = []
        self.const_cache: Dict[Tuple[str, str], Value] = {}
        self.depth = 0
        self.fresh = 0
        self.steps = 0
        self.user: Dict[str, Any] = {}

    def choose(self, n: int, label: str) -> int:
        i = len(self.trace)
        c = self.prefix[i] if i < len(self.prefix) else 0
        self.trace.append((n, c, label))
        return c

    def assume(self, key: Any, label: str) -> bool:
        if key in self.assumptions:
            return self.assumptions[key]
        v = self.choose(2, label) == 0
        self.assumptions[key] = v
        self.conds.append((key, v, label))
        return v

    def set_assumption(self, key: Any, v: bool, label: str = "") -> None:
        if key not in self.assumptions:
            self.assumptions[key] = v

    def event(self, kind: str, **kw: Any) -> Event:
        e = Event(kind, **kw)
        self.events.append(e)
        return e

    def new_tag(self, base: str) -> str:
        self.fresh += 1
        return f"{base}#{self.fresh}"


class Path:
    def __init__(self, run: Run, kind: str, value: Optional[Value], exc: Optional[ExcV]) -> None:
        self.kind, self.value, self.exc = kind, value, exc      # kind: 'return' | 'raise'
        self.conds, self.events, self.assumptions = run.conds, run.events, run.assumptions
        self.run = run

    def cond_labels(self) -> List[str]:
        return [("" if v else "not ") + lab for _, v, lab in self.conds]

    def assumed(self, key: Any) -> Optional[bool]:
        return self.assumptions.get(key)

    def __repr__(self) -> str:
        what = repr(self.value) if self.kind == "return" else f"raise {self.exc!r}"
        return f"Path[{' & '.join(self.cond_labels())}] -> {what}"


BUILTIN_EXC_PARENTS = {
    "Exception": None, "ValueError": "Exception", "TypeError": "Exception", "KeyError": "LookupError",
    "IndexError": "LookupError", "LookupError": "Exception", "AssertionError": "Exception",
    "NotImplementedError": "RuntimeError", "RuntimeError": "Exception", "OSError": "Exception",
    "FileNotFoundError": "OSError", "PermissionError": "OSError", "TimeoutError": "OSError",
    "CalledProcessError": "SubprocessError", "SubprocessError": "Exception", "AttributeError": "Exception",
    "StopIteration": "Exception", "UnicodeDecodeError": "ValueError", "BaseException": None,
}


class Interp:
    def __init__(self, program: Program, summaries: Optional[Dict[str, Callable]] = None,
                 max_paths: int = 20000, max_steps: int = 400000) -> None:
        self.p = program
        self.summaries: Dict[str, Callable] = dict(summaries or {})
        self.max_paths, self.max_steps = max_paths, max_steps
        self.run: Run = Run([])
        self.unknown_call_hook: Optional[Callable] = None
        self._gen_cache: Dict[int, bool] = {}
        self._up_cache: Dict[int, str] = {}
        from . import absint_builtins  # late import (cycle)
        self.bi = absint_builtins.Builtins(self)

    # ------------------------------------------------------------------ exploration
    def explore(self, thunk: Callable[["Interp"], Value]) -> List[Path]:
        paths: List[Path] = []
        stack: List[List[int]] = [[]]
        import os as _os
        import time as _time
        t0 = _time.time()
        budget = float(_os.environ.get("JASMSA_EXPLORE_BUDGET_S", "600"))
        total = float(_os.environ.get("JASMSA_TOTAL_BUDGET_S", "1200"))
        while stack:
            now = _time.time()
            if now - t0 > budget or now - PROCESS_START > total:
                # the exploration cannot be completed in reasonable time: the check ends here, fail closed (findings that
                # are already established are still reported by the driver)
                raise AnalysisError(f"exploration budget exceeded ({now - t0:.0f}s in this exploration, {now - PROCESS_START:.0f}s in "
                                    f"all) after {len(paths)} paths")
            prefix = stack.pop()
            self.run = Run(prefix)
            try:
                v = thunk(self)
                paths.append(Path(self.run, "return", v, None))
            except RaiseEx as r:
                paths.append(Path(self.run, "raise", None, r.exc))
            except ReturnEx as r:  # pragma: no cover
                paths.append(Path(self.run, "return", r.value, None))
            tr = self.run.trace
            for i in range(len(tr) - 1, len(prefix) - 1, -1):
                n, c, _ = tr[i]
                for alt in range(n - 1, c, -1):
                    stack.append([t[1] for t in tr[:i]] + [alt])
            if len(paths) > self.max_paths:
                # keep what was explored: a violation on an explored path is real; without one the driver
                # reports ANALYSIS-ERROR because the exploration is incomplete
                TRUNCATED.append(f"exploration stopped after {self.max_paths} paths")
                break
        return paths

    # ------------------------------------------------------------------ helpers
    def up(self, node: Optional[ast.AST]) -> str:
        if node is None:
            return ""
        r = self._up_cache.get(id(node))
        if r is None:
            r = ast.unparse(node)
            self._up_cache[id(node)] = r
        return r

    def unsupported(self, msg: str, node: Optional[ast.AST], fr: Optional[Frame]) -> Unsupported:
        return Unsupported(msg, node, self.p.rel(fr.module) if fr and fr.module in self.p.modules else "")

    def raise_exc(self, type_name: str, args: Optional[List[Value]] = None, node: Optional[ast.AST] = None,
                  fr: Optional[Frame] = None, cause: Optional[ExcV] = None) -> None:
        where = ""
        if fr is not None:
            where = f"{self.p.rel(fr.module)}:{getattr(node, 'lineno', 0)} {fr.func.qualname if fr.func else '<module>'}"
        exc = ExcV(type_name, args or [], cause, node, where)
        self.run.event("raise", exc=exc, where=where)
        raise RaiseEx(exc)

    def exc_matches(self, exc: ExcV, type_name: str) -> bool:
        t: Optional[str] = exc.type_name
        seen = 0
        while t is not None and seen < 20:
            if t == type_name:
                return True
            c = self.p.try_class(t)
            if c is not None:
                nxt = None
                for b in c.mro()[1:]:
                    if b.name == type_name:
                        return True
                ext = c.all_extern_bases()
                t = ext[0] if ext else None
            else:
                t = BUILTIN_EXC_PARENTS.get(t)
            seen += 1
        return False

    # ------------------------------------------------------------------ truthiness / equality
    def value_key(self, v: Value) -> Any:
        if isinstance(v, Unknown):
            return ("u", v.tag)
        if isinstance(v, SymBool):
            return ("b", v.tag)
        if isinstance(v, Str):
            return ("s", v.render())
        if isinstance(v, AbsList):
            return ("l", v.src, repr(v.elem))
        if isinstance(v, Obj):
            return ("o", v.oid)
        return ("v", repr(v))

    def truth(self, v: Value, label: str = "") -> bool:
        if v is NONE:
            return False
        if isinstance(v, BoolV):
            return v.v
        if isinstance(v, IntV):
            return v.v != 0
        if isinstance(v, SymBool):
            r = self.run.assume(("truth", "b", v.tag), label or v.tag)
            return (not r) if v.neg else r
        if isinstance(v, Str):
            if v.is_concrete():
                return v.text() != ""
            if any(isinstance(a, Lit) for a in v.atoms):
                return True
            h = v.single_hole()
            if h is not None and h.truthy is not None:
                return h.truthy
            if h is None and any(isinstance(a, Hole) and a.truthy for a in v.atoms):
                return True
            return self.run.assume(("truth",) + self.value_key(v), label or f"{v.render()} is non-empty")
        if isinstance(v, ListV):
            if v.absorbed is not None:
                return self.truth(v.absorbed, label)
            return len(v.items) > 0
        if isinstance(v, AbsList):
            if v.flags.get("nonempty"):
                return True
            return self.run.assume(("truth",) + self.value_key(v), label or f"{v.src} is non-empty")
        if isinstance(v, (TupleV, SetV)):
            return len(v.items) > 0
        if isinstance(v, DictV):
            return len(v.pairs) > 0
        if isinstance(v, Obj):
            for dunder in ("__bool__", "__len__"):
                m = v.cls.find_method(dunder)
                if m is not None:
                    return self.truth(self.call_func(m, [], {}, v, None, None), label or f"{v.cls.name}.{dunder}()")
            return True
        if isinstance(v, (ClassV, FuncV, EnumV, Extern, ModuleV, ExcV, LambdaV)):
            return True
        if isinstance(v, Unknown):
            if "truthy" in v.meta:
                return bool(v.meta["truthy"])
            return self.run.assume(("truth", "u", v.tag), label or f"{v.tag}")
        if isinstance(v, FloatV):
            return v.v != 0
        raise AnalysisError(f"truth of {v!r}")

    def is_concrete(self, v: Value) -> bool:
        if v is NONE or isinstance(v, (BoolV, IntV, EnumV, FloatV)):
            return True
        if isinstance(v, Str):
            return v.is_concrete()
        if isinstance(v, (TupleV,)):
            return all(self.is_concrete(x) for x in v.items)
        if isinstance(v, ListV):
            return v.absorbed is None and all(self.is_concrete(x) for x in v.items)
        return False

    def py(self, v: Value) -> Any:
        """python value of a concrete abstract value"""
        if v is NONE:
            return None
        if isinstance(v, (BoolV, IntV, FloatV)):
            return v.v
        if isinstance(v, Str):
            return v.text()
        if isinstance(v, TupleV):
            return tuple(self.py(x) for x in v.items)
        if isinstance(v, ListV):
            return [self.py(x) for x in v.items]
        if isinstance(v, EnumV):
            return v
        raise AnalysisError(f"not concrete: {v!r}")

    def lift(self, x: Any) -> Value:
        if x is None:
            return NONE
        if isinstance(x, Value):
            return x
        if isinstance(x, bool):
            return TRUE if x else FALSE
        if isinstance(x, int):
            return IntV(x)
        if isinstance(x, float):
            return FloatV(x)
        if isinstance(x, str):
            return Str.lit(x)
        if isinstance(x, tuple):
            return TupleV([self.lift(i) for i in x])
        if isinstance(x, list):
            return ListV([self.lift(i) for i in x])
        if isinstance(x, dict):
            return DictV([(self.lift(k), self.lift(v)) for k, v in x.items()])
        raise AnalysisError(f"cannot lift {x!r}")

    def equals(self, a: Value, b: Value, label: str = "") -> bool:
        """a == b (path-sensitive when undetermined)"""
        r = self.try_equals(a, b)
        if r is not None:
            return r
        ka, kb = self.value_key(a), self.value_key(b)
        if repr(ka) > repr(kb):
            ka, kb = kb, ka
        return self.run.assume(("eq", ka, kb), label or f"{self.show(a)} == {self.show(b)}")

    def expr_of(self, v: Value) -> str:
        """provenance expression of a value (no uniqueness counters)"""
        if isinstance(v, Unknown):
            return v.meta.get("expr", v.tag.split("#")[0])
        if isinstance(v, Str):
            return repr(v.text()) if v.is_concrete() else v.render()
        if isinstance(v, SymBool):
            return ("not " if v.neg else "") + v.tag
        return repr(v)

    def show(self, v: Value) -> str:
        return v.render() if isinstance(v, Str) else repr(v)

    def try_equals(self, a: Value, b: Value) -> Optional[bool]:
        if a is b:
            return True
        if (isinstance(a, Unknown) and a.meta.get("sentinel")) or (isinstance(b, Unknown) and b.meta.get("sentinel")):
            return False        # a bare object() equals nothing but itself
        if isinstance(a, ListV) and a.absorbed is not None:
            a = a.absorbed
        if isinstance(b, ListV) and b.absorbed is not None:
            b = b.absorbed
        if self.is_concrete(a) and self.is_concrete(b):
            pa, pb = self.py(a), self.py(b)
            if isinstance(pa, EnumV) or isinstance(pb, EnumV):
                return pa == pb if isinstance(pa, EnumV) and isinstance(pb, EnumV) else False
            return pa == pb
        if isinstance(a, Str) and isinstance(b, Str):
            if a.atoms == b.atoms:
                return True
            sym, con = (a, b) if not a.is_concrete() else (b, a)
            if con.is_concrete():
                t = con.text()
                h = sym.single_hole()
                if h is not None and h.oracle is not None:
                    r = h.oracle("eq", t)
                    if r is not None:
                        return r
                holes_ = [x for x in sym.atoms if not isinstance(x, Lit)]
                if len(holes_) == 1 and isinstance(holes_[0], Hole) and holes_[0].oracle is not None and h is None:
                    i = sym.atoms.index(holes_[0])
                    pre = "".join(sym.atoms[:i])
                    suf = "".join(sym.atoms[i + 1:])
                    if not (t.startswith(pre) and t.endswith(suf) and len(t) >= len(pre) + len(suf)):
                        return False
                    r = holes_[0].oracle("eq", t[len(pre):len(t) - len(suf)])
                    if r is not None:
                        return r
                # literal prefix / suffix mismatch
                if isinstance(sym.atoms[0], Lit) and not t.startswith(sym.atoms[0]) and not sym.atoms[0].startswith(t):
                    return False
                if isinstance(sym.atoms[0], Lit) and len(sym.atoms[0]) <= len(t) and not t.startswith(sym.atoms[0]):
                    return False
                if isinstance(sym.atoms[-1], Lit) and len(sym.atoms[-1]) <= len(t) and not t.endswith(sym.atoms[-1]):
                    return False
                minlen = sum(len(x) for x in sym.atoms if isinstance(x, Lit))
                if minlen > len(t):
                    return False
            return None
        types = (Str, IntV, BoolV, DictV, ListV, TupleV, AbsList, Obj, EnumV, ClassV)
        if isinstance(a, Unknown) or isinstance(b, Unknown) or isinstance(a, SymBool) or isinstance(b, SymBool):
            if isinstance(a, Unknown) and isinstance(b, Unknown) and a.meta.get("op") == "len" and b.meta.get("op") == "len":
                # the lengths of a list and of an unfiltered element-wise image of it
                la, lb = a.meta["args"][0], b.meta["args"][0]
                keys = ("filters", "sliced", "appended", "mixed", "flattened_groups", "perm", "perm_outer", "perm_r")
                if isinstance(la, AbsList) and isinstance(lb, AbsList) and la.src == lb.src and \
                        all(la.flags.get(k) == lb.flags.get(k) for k in keys):
                    return True
            if (a is NONE or b is NONE):
                u = a if b is NONE else b
                if isinstance(u, Unknown) and u.meta.get("not_none"):
                    return False
            return None
        if a is NONE or b is NONE:
            return a is b
        if isinstance(a, TupleV) and isinstance(b, TupleV):
            if len(a.items) != len(b.items):
                return False
            res: Optional[bool] = True
            for x, y in zip(a.items, b.items):
                r = self.try_equals(x, y)
                if r is False:
                    return False
                if r is None:
                    res = None
            return res
        if isinstance(a, types) and isinstance(b, types):
            def fam(v: Value) -> str:
                if isinstance(v, (ListV, AbsList)):
                    return "list"
                if isinstance(v, (IntV, BoolV)):
                    return "num"
                return type(v).__name__
            if fam(a) != fam(b):
                return False
            if isinstance(a, Obj) and isinstance(b, Obj):
                if a is b:
                    return True
                if a.cls is b.cls and a.cls.is_dataclass and a.cls.find_method("__eq__") is None and \
                        not any("eq=False" in d.replace(" ", "") for d in a.cls.decorators):
                    # the generated __eq__: field by field, in declaration order
                    res2: Optional[bool] = True
                    for k in sorted(set(a.fields) | set(b.fields)):
                        if k not in a.fields or k not in b.fields:
                            return None
                        r = self.try_equals(a.fields[k], b.fields[k])
                        if r is False:
                            return False
                        if r is None:
                            res2 = None
                    return res2
                return False
            if isinstance(a, Obj) or isinstance(a, ClassV):
                return a is b if isinstance(a, Obj) else a.cls is b.cls  # type: ignore[union-attr]
            return None
        return None

    # ------------------------------------------------------------------ names
    def lookup(self, name: str, fr: Frame, node: Optional[ast.AST] = None) -> Value:
        if name in fr.locals:
            return fr.locals[name]
        cl = fr.closure
        if cl is not None and name in cl:
            return cl[name]
        return self.module_name(fr.module, name, node, fr)

    def module_name(self, module: str, name: str, node: Optional[ast.AST] = None, fr: Optional[Frame] = None) -> Value:
        r = self.p.resolve(module, name)
        if r is None:
            if name in self.bi.BUILTIN_NAMES:
                return Extern(name)
            raise self.unsupported(f"unresolved name {name}", node, fr)
        kind = r[0]
        if kind == "class":
            return ClassV(r[1])
        if kind == "func":
            return FuncV(r[1])
        if kind == "module":
            return ModuleV(r[1])
        if kind == "extern":
            return Extern(r[1])
        if kind == "const":
            _, mod, expr = r
            # find the defining module of the constant for caching
            key = (mod, ast.dump(expr)[:200] + str(getattr(expr, "lineno", 0)))
            if key not in self.run.const_cache:
                self.run.const_cache[key] = self.eval(expr, Frame(mod, None, {}))
                self._import_time_mutations(mod, expr)
            return self.run.const_cache[key]
        raise AnalysisError(f"resolve kind {kind}")

    def _import_time_mutations(self, mod: str, expr: ast.expr) -> None:
        """module-level statements that act on the object a module constant was just bound to - `REGISTRY.register(...)`,
        `TABLE[k] = v`, `NAMES.append(x)` written below its definition - run once, in order, as the import does"""
        m = self.p.modules.get(mod)
        if m is None:
            return
        names = [n for n, e in m.consts.items() if e is expr]
        if not names:
            return
        name = names[0]
        for st in m.tree.body:
            if getattr(st, "lineno", 0) <= getattr(expr, "lineno", 0):
                continue
            acts = False
            if isinstance(st, ast.Expr) and isinstance(st.value, ast.Call) and isinstance(st.value.func, ast.Attribute) and \
                    isinstance(st.value.func.value, ast.Name) and st.value.func.value.id == name:
                acts = True
            if isinstance(st, ast.Assign) and any(isinstance(t, ast.Subscript) and isinstance(t.value, ast.Name) and t.value.id == name
                                                  for t in st.targets):
                acts = True
            if isinstance(st, ast.AugAssign) and isinstance(st.target, ast.Name) and st.target.id == name:
                raise self.unsupported(f"module constant {name} rebound by an augmented assignment", st, None)
            if acts:
                self.exec_block([st], Frame(mod, None, {}))


    # ------------------------------------------------------------------ calling
    def call_value(self, f: Value, args: List[Value], kwargs: Dict[str, Value], node: Optional[ast.AST],
                   fr: Optional[Frame]) -> Value:
        if isinstance(f, FuncV):
            return self.call_func(f.func, args, kwargs, f.self_val, node, fr, f.closure)
        if isinstance(f, ClassV):
            return self.construct(f.cls, args, kwargs, node, fr)
        if isinstance(f, Extern):
            return self.bi.call_extern(f, args, kwargs, node, fr)
        if isinstance(f, LambdaV):
            lam = f.node
            loc = dict(f.frame.locals)                      # free variables: looked up when called (late binding)
            params = [x.arg for x in lam.args.posonlyargs + lam.args.args]
            if len(args) > len(params):
                self.raise_exc("TypeError", [Str.lit("too many arguments for lambda")], node, fr)
            bound = dict(zip(params, args))
            for k, v in kwargs.items():
                if k in bound or k not in params + [x.arg for x in lam.args.kwonlyargs]:
                    self.raise_exc("TypeError", [Str.lit(f"lambda got an unexpected or repeated argument {k}")], node, fr)
                bound[k] = v
            for prm in params + [x.arg for x in lam.args.kwonlyargs]:
                if prm not in bound:
                    if prm in f.defaults:
                        bound[prm] = f.defaults[prm]
                    else:
                        self.raise_exc("TypeError", [Str.lit(f"lambda missing argument {prm}")], node, fr)
            loc.update(bound)
            return self.eval(lam.body, Frame(f.frame.module, f.frame.func, loc, f.frame.closure, f.frame.self_val,
                                             f.frame.def_cls))
        if isinstance(f, Unknown):
            recv = f.meta.get("recv")
            if isinstance(recv, Unknown) and "template_groups" in recv.meta and f.meta.get("attr") == "groups" and not kwargs and not args:
                return TupleV(list(recv.meta["template_groups"][1:]))
            if isinstance(recv, Unknown) and f.meta.get("attr") == "group" and not kwargs and \
                    all(isinstance(a, IntV) or (isinstance(a, Str) and a.is_concrete()) for a in args):
                if len(args) > 1:
                    # m.group(a, b, ...): the tuple of the single groups
                    return TupleV([self.call_value(f, [a], {}, node, fr) for a in args])
                g = self.match_group(recv, (args[0].v if isinstance(args[0], IntV) else args[0].text()) if args else 0, node, fr)
                if g is not None:
                    return g
            if isinstance(recv, Unknown) and "pattern_text" in recv.meta and f.meta.get("attr") == "groups" and not args:
                from . import rx as _rx
                try:
                    n = len(_rx.groups(_rx.parse(recv.meta["pattern_text"]), "cap"))
                except AnalysisError:
                    n = -1
                if n >= 0:
                    gf = Unknown(f"{recv.tag}.group", {"recv": recv, "attr": "group", "expr": f"{self.expr_of(recv)}.group"})
                    return TupleV([Unknown(self.run.new_tag(f"{recv.tag}.group({i})"),
                                           {"call_of": gf, "args": [IntV(i)], "kwargs": {},
                                            "expr": f"{self.expr_of(recv)}.group({i})"}) for i in range(1, n + 1)])
            if isinstance(recv, Unknown) and f.meta.get("attr") == "split" and len(args) == 1 and not kwargs and \
                    isinstance(recv.meta.get("call_of"), Unknown) and recv.meta["call_of"].meta.get("attr") == "group" and \
                    isinstance(args[0], Str) and args[0].is_concrete():
                # <match>.group(k).split(sep): a list of pieces of that group's text (same shape as Str.split)
                rex, septxt = self.expr_of(recv), args[0].text()
                return AbsList(Str((Hole(f"{rex}.split({septxt!r})[*]", "split", meta={"split_of": rex, "sep": septxt, "of": recv}),)),
                               f"{rex}.split({septxt!r})", {"nonempty": True, "split": (rex, septxt), "of": recv, "maxsplit": None})
            if isinstance(recv, Unknown) and "compiled" in recv.meta:
                mod, pat = recv.meta["compiled"]
                meth = getattr(self.bi, f"x_{mod}_{f.meta.get('attr')}", None)
                if meth is not None:
                    return meth([pat] + list(args), dict(kwargs), node, fr)
            if self.unknown_call_hook is not None:
                r = self.unknown_call_hook(self, f, args, kwargs, node, fr)
                if r is not None:
                    return r
            if f.meta.get("attr") in ("debug", "info", "warning", "error", "critical", "exception", "log") and \
                    any(isinstance(a, Obj) and (a.cls.find_method("__str__") or a.cls.find_method("__repr__")) for a in args[1:]):
                # logging formats its arguments lazily: when (and only when) the record is emitted, the argument's own
                # __str__ / __repr__ runs - with whatever it does to the object
                if self.run.assume(("log-record-formatted", self.up(node) if node is not None else f.tag),
                                   f"the log record of `{(self.up(node) if node is not None else f.tag)[:60]}` is formatted"):
                    fmt = args[0].text() if isinstance(args[0], Str) and args[0].is_concrete() else ""
                    import re as _re_
                    specs = _re_.findall(r"%[-#0 +]*\d*(?:\.\d+)?([a-zA-Z%])", fmt)
                    specs = [x for x in specs if x != "%"]
                    for i, a in enumerate(args[1:]):
                        if isinstance(a, Obj):
                            want = "__repr__" if i < len(specs) and specs[i] == "r" else "__str__"
                            m_ = a.cls.find_method(want) or a.cls.find_method("__repr__") or a.cls.find_method("__str__")
                            if m_ is not None:
                                self.call_func(m_, [], {}, a, node, fr)
            tag = f"{f.tag}(...)"
            self.run.event("call_unknown", target=f.tag, args=args, kwargs=kwargs, node=node, fvalue=f,
                           func=(fr.func.qualname if fr and fr.func else ""), module=(fr.module if fr else ""))
            argtxt = ", ".join([self.expr_of(a) for a in args] + [f"{k}={self.expr_of(v)}" for k, v in kwargs.items()])
            return Unknown(self.run.new_tag(tag), {"call_of": f, "args": args, "kwargs": kwargs,
                                                   "expr": f"{self.expr_of(f)}({argtxt})"})
        raise self.unsupported(f"call of {f!r}", node, fr)

    def match_group(self, recv: "Unknown", k: int, node, fr) -> Optional[Value]:
        """group k of a modelled match object (`m.group(k)`, `m[k]`), or None when the model cannot say"""
        meta = recv.meta
        if isinstance(k, str):
            # a named group: its number in the pattern
            pt0 = meta.get("pattern_text")
            if not isinstance(pt0, str):
                return None
            from . import rx as _rx0
            try:
                named = {g.name: g.index for g in _rx0.groups(_rx0.parse(pt0), "cap") if g.name}
            except AnalysisError:
                return None
            if k not in named:
                self.raise_exc("IndexError", [Str.lit("no such group")], node, fr)
            k = named[k]
        if "template_groups" in meta:
            tg = meta["template_groups"]
            if 0 <= k < len(tg):
                return tg[k]
            self.raise_exc("IndexError", [Str.lit("no such group")], node, fr)
        if "concrete_groups" in meta:
            cg = meta["concrete_groups"]
            if 0 <= k < len(cg):
                return NONE if cg[k] is None else Str.lit(cg[k])
            self.raise_exc("IndexError", [Str.lit("no such group")], node, fr)
        if "group0" in meta:
            if k == 0:
                return meta["group0"]
            pt = meta.get("pattern_text")
            if isinstance(pt, str) and isinstance(meta["group0"], Str):
                # <literal prefix>(group k)<literal suffix>: the group is the whole match without the literals
                from . import rx as _rx
                try:
                    items = _rx.seq_items(_rx.parse(pt))
                except AnalysisError:
                    return None
                gi = [i for i, x in enumerate(items) if isinstance(x, _rx.Group) and x.kind == "cap" and x.index == k]
                if len(gi) == 1 and not _rx.backrefs(_rx.parse(pt)) and \
                        all(isinstance(x, _rx.Char) for i, x in enumerate(items) if i != gi[0]):
                    pre, suf = gi[0], len(items) - gi[0] - 1
                    return self.bi.slice(meta["group0"], IntV(pre) if pre else NONE, IntV(-suf) if suf else NONE, NONE, node, fr)
        return None

    def call_func(self, func: FuncInfo, args: List[Value], kwargs: Dict[str, Value], self_val: Optional[Value],
                  node: Optional[ast.AST], caller: Optional[Frame], closure: Optional[dict] = None,
                  skip_summary: bool = False) -> Value:
        qn = func.qualname
        ov = self.run.user.get("regex_override")
        if ov and func.name == "get_regex" and isinstance(self_val, Obj) and self_val.oid in ov:
            return ov[self_val.oid]
        if qn in self.summaries and not skip_summary:
            r = self.summaries[qn](self, func, self_val, args, kwargs, node, caller)
            if r is not NotImplemented:
                return r
        memo_key = None
        if any(d.split("(")[0].split(".")[-1] in ("lru_cache", "cache", "cached_property", "memoize") for d in func.decorators):
            # a memoising decorator: one result object per argument tuple for the whole process (run)
            memo_key = ("$memo", qn, tuple(self.expr_of(a) for a in args), tuple(sorted((k, self.expr_of(v)) for k, v in kwargs.items())))
            if memo_key in self.run.const_cache:
                self.run.event("memo_hit", func=qn)
                return self.run.const_cache[memo_key]
        isgen = self._gen_cache.get(id(func.node))
        if isgen is None:
            isgen = any(isinstance(n, (ast.Yield, ast.YieldFrom)) for n in ast.walk(func.node))
            self._gen_cache[id(func.node)] = isgen
        gen_mode = bool(isgen)
        a = func.node.args
        params = [x.arg for x in a.posonlyargs + a.args]
        locals_: Dict[str, Value] = {}
        pos = list(args)
        if self_val is not None and not func.is_static:
            pos = [self_val] + pos
        if len(pos) > len(params) and a.vararg is None:
            raise self.unsupported(f"too many positional arguments for {qn}", node, caller)
        for pname, v in zip(params, pos):
            locals_[pname] = v
        if a.vararg is not None:
            locals_[a.vararg.arg] = TupleV(pos[len(params):])
        extra: List[Tuple[Value, Value]] = []
        kwonly = [x.arg for x in a.kwonlyargs]
        for k, v in kwargs.items():
            if k in params or k in kwonly:
                if k in locals_:
                    raise self.unsupported(f"duplicate argument {k} for {qn}", node, caller)
                locals_[k] = v
            elif a.kwarg is not None:
                extra.append((Str.lit(k), v))
            else:
                self.raise_exc("TypeError", [Str.lit(f"unexpected keyword {k} for {qn}")], node, caller)
        if a.kwarg is not None:
            locals_[a.kwarg.arg] = DictV(extra)
        defaults = a.defaults
        dfr = Frame(func.module, None, {})
        for pname, d in zip(params[len(params) - len(defaults):], defaults):
            if pname not in locals_:
                locals_[pname] = self.eval(d, dfr)
        for x, d in zip(a.kwonlyargs, a.kw_defaults):
            if x.arg not in locals_ and d is not None:
                locals_[x.arg] = self.eval(d, dfr)
        for pname in params + kwonly:
            if pname not in locals_:
                self.raise_exc("TypeError", [Str.lit(f"missing argument {pname} for {qn}")], node, caller)
        fr = Frame(func.module, func, locals_, closure, self_val if not func.is_static else None, func.cls)
        if gen_mode:
            # a generator is evaluated eagerly: the list of the values it yields, in order
            fr.locals["$yields"] = ListV([])
        INTERPRETED.add(qn)
        self.run.depth += 1
        if self.run.depth > 150:
            # unbounded recursion of the interpreted program (e.g. over a cyclic structure it built): Python itself
            # ends this with RecursionError, which the program may catch or, normally, dies of - a loud failure
            self.run.depth -= 1
            self.run.event("recursion_error", func=qn)
            self.raise_exc("RecursionError", [Str.lit("maximum recursion depth exceeded")], node, caller)
        self.run.event("enter", func=qn, node=node, frame=fr)
        try:
            try:
                self.exec_block(func.node.body, fr)
                result: Value = fr.locals["$yields"] if gen_mode else NONE
            except ReturnEx as r:
                result = fr.locals["$yields"] if gen_mode else r.value
            except Unsupported:
                if not gen_mode:
                    raise
                # a generator that cannot be evaluated eagerly (e.g. an open-ended loop): an opaque iterator
                self.run.event("call_generator", func=qn, args=args, kwargs=kwargs, node=node)
                result = Unknown(self.run.new_tag(f"{qn}(...)"), {"generator": qn, "expr": f"{qn}(...)"})
            if gen_mode:
                # a generator object: consumed by its first use
                if isinstance(result, (ListV, AbsList)):
                    result.one_shot = True      # type: ignore[union-attr]
                elif isinstance(result, Unknown):
                    result.meta["one_shot"] = True
            if memo_key is not None:
                self.run.const_cache[memo_key] = result
            return result
        finally:
            self.run.depth -= 1

    def construct(self, cls: ClassInfo, args: List[Value], kwargs: Dict[str, Value], node: Optional[ast.AST],
                  fr: Optional[Frame]) -> Value:
        key = f"{cls.name}.__call__"
        if key in self.summaries:
            r = self.summaries[key](self, None, ClassV(cls), args, kwargs, node, fr)
            if r is not NotImplemented:
                return r
        if cls.is_enum:
            want = args[0] if args else NONE
            unknown = False
            for member in cls.attrs:
                mv = self.get_attr(EnumV(cls, member), "value", node, fr)
                r = self.try_equals(mv, want)
                if r is True:
                    return EnumV(cls, member)
                if r is None:
                    unknown = True
            if unknown:
                # lookup by an abstract value: it equals one member's value (path-sensitive), or none (ValueError)
                for member in cls.attrs:
                    mv = self.get_attr(EnumV(cls, member), "value", node, fr)
                    if self.try_equals(mv, want) is None and self.equals(mv, want, f"{self.show(want)} == {self.show(mv)}"):
                        return EnumV(cls, member)
            self.raise_exc("ValueError", [Str.lit(f"not a valid {cls.name}")], node, fr)
        if cls.is_subclass_of("Exception") or cls.is_subclass_of("BaseException"):
            return ExcV(cls.name, args)
        obj = Obj(cls)
        self.run.event("construct", cls=cls.name, obj=obj, args=args, kwargs=kwargs, node=node,
                       where=(self.p.loc(fr.module, node) if fr and node is not None else ""))
        init = cls.find_method("__init__")
        if init is not None:
            self.call_func(init, args, kwargs, obj, node, fr)
            return obj
        # dataclass-style construction
        fields: List[Tuple[str, Optional[ast.expr], str]] = []
        is_nt = "NamedTuple" in cls.all_extern_bases()
        for c in reversed(cls.mro()):
            if c.is_dataclass or is_nt:
                for n, dflt in c.ann_order:
                    fields = [f for f in fields if f[0] != n] + [(n, dflt, c.module)]
        if not fields and (args or kwargs):
            raise self.unsupported(f"construction of {cls.name} without __init__", node, fr)
        pos = list(args)
        for (n, dflt, mod) in fields:
            if pos:
                obj.fields[n] = pos.pop(0)
            elif n in kwargs:
                obj.fields[n] = kwargs[n]
            elif dflt is not None:
                dfr_ = Frame(mod, None, {})
                fcall = dflt if isinstance(dflt, ast.Call) and (
                    (isinstance(dflt.func, ast.Name) and dflt.func.id == "field") or
                    (isinstance(dflt.func, ast.Attribute) and dflt.func.attr == "field")) else None
                if fcall is not None:
                    # dataclasses.field(default=..., default_factory=...): the factory is called for every new object
                    kw = {k.arg: k.value for k in fcall.keywords}
                    if "default_factory" in kw:
                        obj.fields[n] = self.call_value(self.eval(kw["default_factory"], dfr_), [], {}, node, fr)
                    elif "default" in kw:
                        obj.fields[n] = self.eval(kw["default"], dfr_)
                    else:
                        self.raise_exc("TypeError", [Str.lit(f"missing field {n} for {cls.name}")], node, fr)
                else:
                    obj.fields[n] = self.eval(dflt, dfr_)
            else:
                self.raise_exc("TypeError", [Str.lit(f"missing field {n} for {cls.name}")], node, fr)
        for k in kwargs:
            if k not in [f[0] for f in fields]:
                self.raise_exc("TypeError", [Str.lit(f"unexpected field {k} for {cls.name}")], node, fr)
        if is_nt:
            obj.nt_order = [f[0] for f in fields]      # type: ignore[attr-defined]  (a typing.NamedTuple: also a tuple of its fields)
            return obj
        post = cls.find_method("__post_init__")
        if post is not None:
            self.call_func(post, [], {}, obj, node, fr)
        return obj

    @staticmethod
    def as_tuple(v: Value) -> Value:
        """a NamedTuple instance seen as the tuple of its fields (indexing, unpacking, iteration, len)"""
        if isinstance(v, Obj) and getattr(v, "nt_order", None) is not None:
            return TupleV([v.fields[n] for n in v.nt_order])      # type: ignore[attr-defined]
        return v

    def dynamic_class_attr(self, c: ClassInfo, name: str, node, fr) -> Optional[Value]:
        """a class attribute that is not written in a class body but assigned when the class is created
        (`__init_subclass__` of a base class: run once per class, as the class statement does) or later (`cls.x = ...`)"""
        for k in c.mro():
            done = ("$init_subclass", k.name)
            if done not in self.run.const_cache:
                self.run.const_cache[done] = True
                hook = k.find_method("__init_subclass__", after=k)
                if hook is not None:
                    self.call_func(hook, [], {}, ClassV(k), node, fr)
        for k in c.mro():
            key = ("$classattr", k.name + "." + name)
            if key in self.run.const_cache:
                return self.run.const_cache[key]      # assigned at run time (or already evaluated), nearest class first
            if name in k.attrs:
                return self.class_attr(k, name, k.attrs[name])
            if name in k.methods:
                return None
        return None

    # ------------------------------------------------------------------ attributes
    def get_attr(self, v: Value, name: str, node: Optional[ast.AST], fr: Optional[Frame]) -> Value:
        if isinstance(v, ListV) and v.absorbed is not None and name not in ("append", "extend", "insert"):
            v = v.absorbed
        if isinstance(v, Obj):
            if name in v.fields:
                return v.fields[name]
            m = v.cls.find_method(name)
            if m is not None:
                if m.is_property:
                    return self.call_func(m, [], {}, v, node, fr)
                if m.is_static:
                    return FuncV(m, None)
                return FuncV(m, v)
            dyn = self.dynamic_class_attr(v.cls, name, node, fr)
            if dyn is not None:
                return dyn
            ca = v.cls.find_attr(name)
            if ca is not None:
                c, expr = ca
                return self.class_attr(c, name, expr)
            if name == "__class__":
                return ClassV(v.cls)
            if getattr(v, "nt_order", None) is not None and name in ("_asdict", "_replace", "_fields"):
                return Extern("$namedtuple." + name, v)
            key = f"{v.cls.name}.__getattr__"
            if key in self.summaries:
                return self.summaries[key](self, None, v, [Str.lit(name)], {}, node, fr)
            self.raise_exc("AttributeError", [Str.lit(f"{v.cls.name} object has no attribute {name}")], node, fr)
        if isinstance(v, ClassV):
            c = v.cls
            if c.is_enum:
                for k in c.mro():
                    if name in k.attrs:
                        return EnumV(c, name)
            m = c.find_method(name)
            if m is not None:
                if m.is_classmethod:
                    return FuncV(m, v)
                return FuncV(m, None)
            dyn = self.dynamic_class_attr(c, name, node, fr)
            if dyn is not None:
                return dyn
            ca = c.find_attr(name)
            if ca is not None:
                k, expr = ca
                return self.class_attr(k, name, expr)
            if name == "__name__":
                return Str.lit(c.name)
            if name == "_make" and "NamedTuple" in c.all_extern_bases():
                return Extern("$namedtuple._make", v)
            if name == "_fields" and "NamedTuple" in c.all_extern_bases():
                order: List[str] = []
                for k in reversed(c.mro()):
                    for n_, _ in k.ann_order:
                        if n_ not in order:
                            order.append(n_)
                return TupleV([Str.lit(x) for x in order])
            if name == "__subclasses__":
                # direct subclasses in definition order; defined when they all live in one module (import order between modules
                # is not derived here)
                subs = [k for m_ in self.p.modules.values() for k in m_.classes.values() if c in k.bases]
                if len({k.module for k in subs}) > 1:
                    raise self.unsupported(f"{c.name}.__subclasses__() over several modules", node, fr)
                subs.sort(key=lambda k: k.node.lineno)
                return Extern("$subclasses", ListV([ClassV(k) for k in subs]))
            raise self.unsupported(f"class attribute {c.name}.{name}", node, fr)
        if isinstance(v, EnumV):
            if name == "name":
                return Str.lit(v.member)
            if name == "value":
                ca = v.cls.find_attr(v.member)
                assert ca is not None
                k, expr = ca
                if isinstance(expr, ast.Call) and getattr(expr.func, "id", getattr(expr.func, "attr", "")) == "auto":
                    idx = [n for n in v.cls.attrs].index(v.member) + 1
                    return IntV(idx)
                return self.eval(expr, Frame(k.module, None, {}))
            em = v.cls.find_method(name)
            if em is not None:
                # a method or property the enum class defines: the member is its `self`
                if em.is_property:
                    return self.call_func(em, [], {}, v, node, fr)
                return FuncV(em, None if em.is_static else v)
            raise self.unsupported(f"enum attribute {name}", node, fr)
        if isinstance(v, SuperV):
            assert isinstance(v.self_val, (Obj, ClassV))
            cls = v.self_val.cls
            m = cls.find_method(name, after=v.after_cls)
            if m is None:
                if name in ("__init__", "__new__"):
                    return Extern(f"object.{name}", v.self_val)
                ext = cls.all_extern_bases()
                return Extern(f"{ext[0] if ext else 'object'}.{name}", v.self_val)
            return FuncV(m, None if m.is_static else v.self_val)
        if isinstance(v, ModuleV):
            return self.module_name(v.name, name, node, fr)
        if isinstance(v, Extern):
            return Extern(f"{v.name}.{name}", v.recv)
        if isinstance(v, Unknown):
            stored = v.meta.get("$attrs", {})
            if name in stored:
                return stored[name]
            return Unknown(f"{v.tag}.{name}", {"recv": v, "attr": name, "expr": f"{self.expr_of(v)}.{name}"})
        if isinstance(v, ExcV):
            if name == "args":
                return TupleV(v.args)
            return Unknown(f"{v.type_name}.{name}")
        return self.bi.method(v, name, node, fr)

    def class_attr(self, c: ClassInfo, name: str, expr: ast.expr) -> Value:
        """class-level attributes are evaluated once per run: one object shared by all instances"""
        key = ("$classattr", c.name + "." + name)
        if key not in self.run.const_cache:
            # the class body is a scope: an initialiser may name the attributes defined before it
            scope: Dict[str, Value] = {}
            wanted = {n.id for n in ast.walk(expr) if isinstance(n, ast.Name)}
            for other, oexpr in c.attrs.items():
                if other == name:
                    break
                if other in wanted:
                    scope[other] = self.class_attr(c, other, oexpr)
            for mname, fi in c.methods.items():
                # ... and the functions defined before it (plain functions at that point: called with the instance as argument)
                if mname in wanted and mname not in scope and fi.node.lineno < getattr(expr, "lineno", 0):
                    scope[mname] = FuncV(fi, None)
            self.run.const_cache[key] = self.eval(expr, Frame(c.module, None, scope))
        return self.run.const_cache[key]

    def set_attr(self, target: Value, name: str, value: Value, node: Optional[ast.AST], fr: Optional[Frame]) -> None:
        if isinstance(target, Obj):
            s = target.cls.find_setter(name)
            if s is not None:
                self.call_func(s, [value], {}, target, node, fr)
                return
            self.run.event("setattr", obj=target, cls=target.cls.name, attr=name, value=value, node=node,
                           func=(fr.func.qualname if fr and fr.func else ""))
            target.fields[name] = value
            return
        if isinstance(target, ClassV):
            self.run.event("setattr_class", cls=target.cls.name, attr=name, value=value, node=node,
                           func=(fr.func.qualname if fr and fr.func else ""))
            self.run.const_cache[("$classattr", target.cls.name + "." + name)] = value
            return
        if isinstance(target, Unknown):
            target.meta.setdefault("$attrs", {})[name] = value
        if isinstance(target, (Unknown, ClassV)):
            self.run.event("setattr_unknown", target=target, attr=name, value=value, node=node,
                           func=(fr.func.qualname if fr and fr.func else ""))
            return
        raise self.unsupported(f"attribute store on {target!r}", node, fr)

    # ------------------------------------------------------------------ statements
    def exec_block(self, stmts: List[ast.stmt], fr: Frame) -> None:
        for st in stmts:
            self.exec_stmt(st, fr)

    def exec_stmt(self, st: ast.stmt, fr: Frame) -> None:
        self.run.steps += 1
        if self.run.steps > self.max_steps:
            raise PathLimit("step limit exceeded")
        m = getattr(self, "st_" + type(st).__name__, None)
        if m is None:
            raise self.unsupported(f"statement {type(st).__name__}", st, fr)
        m(st, fr)

    def st_Expr(self, st: ast.Expr, fr: Frame) -> None:
        if isinstance(st.value, ast.Constant):
            return
        self.eval(st.value, fr)

    def st_Delete(self, st: ast.Delete, fr: Frame) -> None:
        for t in st.targets:
            if isinstance(t, ast.Name):
                if t.id in fr.locals:
                    del fr.locals[t.id]
                    continue
                raise self.unsupported("del of a non-local name", st, fr)
            if isinstance(t, ast.Subscript):
                base, idx = self.eval(t.value, fr), self.eval(t.slice, fr)
                if isinstance(base, DictV):
                    for i, (k, _) in enumerate(base.pairs):
                        if self.equals(idx, k):
                            del base.pairs[i]
                            break
                    else:
                        self.raise_exc("KeyError", [idx], st, fr)
                    continue
                if isinstance(base, ListV) and base.absorbed is None and isinstance(idx, IntV) and not fr.abs_loop:
                    try:
                        del base.items[idx.v]
                    except IndexError:
                        self.raise_exc("IndexError", [Str.lit("list assignment index out of range")], st, fr)
                    continue
            raise self.unsupported(f"del {ast.unparse(t)} (base {self.eval(t.value, fr)!r})"[:200] if isinstance(t, ast.Subscript) else "del", st, fr)

    def st_Pass(self, st: ast.Pass, fr: Frame) -> None:
        return

    def st_Import(self, st: ast.Import, fr: Frame) -> None:
        for a in st.names:
            fr.locals[a.asname or a.name.split(".")[0]] = Extern(a.name if a.asname else a.name.split(".")[0])

    def st_ImportFrom(self, st: ast.ImportFrom, fr: Frame) -> None:
        for a in st.names:
            mod = st.module or ""
            if mod in self.p.modules:
                fr.locals[a.asname or a.name] = self.module_name(mod, a.name, st, fr)
            else:
                fr.locals[a.asname or a.name] = Extern(f"{mod}.{a.name}")

    def st_Global(self, st: ast.Global, fr: Frame) -> None:
        self.run.event("global_decl", names=list(st.names), func=fr.func.qualname if fr.func else "")

    st_Nonlocal = st_Global

    def st_FunctionDef(self, st: ast.FunctionDef, fr: Frame) -> None:
        from .facts import decorator_names
        fi = FuncInfo(st.name, fr.module, st, None, decorator_names(st))
        closure = dict(fr.closure or {})
        closure.update(fr.locals)
        fv = FuncV(fi, None, closure)
        closure[st.name] = fv
        fr.locals[st.name] = fv

    def st_Return(self, st: ast.Return, fr: Frame) -> None:
        raise ReturnEx(self.eval(st.value, fr) if st.value is not None else NONE)

    def st_Break(self, st: ast.Break, fr: Frame) -> None:
        raise BreakEx()

    def st_Continue(self, st: ast.Continue, fr: Frame) -> None:
        raise ContinueEx()

    def st_Assign(self, st: ast.Assign, fr: Frame) -> None:
        v = self.eval(st.value, fr)
        for t in st.targets:
            self.assign(t, v, fr)

    def st_AnnAssign(self, st: ast.AnnAssign, fr: Frame) -> None:
        if st.value is None:
            return
        self.assign(st.target, self.eval(st.value, fr), fr)

    def st_AugAssign(self, st: ast.AugAssign, fr: Frame) -> None:
        cur = self.eval(st.target, fr)  # type: ignore[arg-type]
        rhs = self.eval(st.value, fr)
        if isinstance(st.op, ast.Add) and isinstance(cur, ListV) and cur.absorbed is None:
            self.bi.list_extend(cur, rhs, st, fr)
            return
        if isinstance(st.op, ast.Add) and fr.abs_loop and isinstance(cur, Str) and isinstance(rhs, Str):
            # text += piece inside a loop over a list of unknown length: the in-order join of the pieces
            src = fr.abs_loop[-1]
            flags = {"mixed": True} if any(isinstance(a, Join) and a.src == src for a in cur.atoms) else {}
            self.assign(st.target, cur + Str((Join("", rhs, src, flags),)), fr)
            return
        self.assign(st.target, self.binop(st.op, cur, rhs, st, fr), fr)

    def assign(self, t: ast.expr, v: Value, fr: Frame) -> None:
        if isinstance(t, ast.Name):
            fr.locals[t.id] = v
        elif isinstance(t, ast.Attribute):
            self.set_attr(self.eval(t.value, fr), t.attr, v, t, fr)
        elif isinstance(t, ast.Subscript):
            self.bi.store_subscript(self.eval(t.value, fr), self.eval(t.slice, fr), v, t, fr)
        elif isinstance(t, (ast.Tuple, ast.List)) and any(isinstance(x, ast.Starred) for x in t.elts):
            si = [i for i, x in enumerate(t.elts) if isinstance(x, ast.Starred)][0]
            before, after = t.elts[:si], t.elts[si + 1:]
            if isinstance(v, ListV) and v.absorbed is not None:
                v = v.absorbed
            if isinstance(v, (ListV, TupleV)):
                n = len(v.items)
                if n < len(before) + len(after):
                    self.raise_exc("ValueError", [Str.lit("not enough values to unpack")], t, fr)
                for e, x in zip(before, v.items[:len(before)]):
                    self.assign(e, x, fr)
                self.assign(t.elts[si].value, ListV(list(v.items[len(before):n - len(after)])), fr)
                for e, x in zip(after, v.items[n - len(after):] if after else []):
                    self.assign(e, x, fr)
            elif isinstance(v, AbsList):
                for i, e in enumerate(before):
                    self.assign(e, self.bi.subscript(v, IntV(i), t, fr), fr)
                self.assign(t.elts[si].value, v.with_flags(sliced="[star]"), fr)
                for i, e in enumerate(after):
                    self.assign(e, self.bi.subscript(v, IntV(i - len(after)), t, fr), fr)
            else:
                raise self.unsupported(f"starred unpacking of {v!r}", t, fr)
        elif isinstance(t, (ast.Tuple, ast.List)):
            items = self.bi.unpack(v, len(t.elts), t, fr)
            for e, x in zip(t.elts, items):
                self.assign(e, x, fr)
        else:
            raise self.unsupported(f"assignment target {type(t).__name__}", t, fr)

    def st_If(self, st: ast.If, fr: Frame) -> None:
        c = self.eval(st.test, fr)
        if self.truth(c, self.up(st.test)):
            self.exec_block(st.body, fr)
        else:
            self.exec_block(st.orelse, fr)

    def st_Assert(self, st: ast.Assert, fr: Frame) -> None:
        c = self.eval(st.test, fr)
        txt = self.up(st.test)
        self.run.event("assert", test=txt, node=st, func=fr.func.qualname if fr.func else "")
        determinate = isinstance(c, BoolV) or c is NONE or self.is_concrete(c)
        if determinate:
            if not self.truth(c):
                self.raise_exc("AssertionError", [Str.lit(txt)], st, fr)
        else:
            # an assertion on unknown data: follow the passing path only (recorded as an event)
            key = self._truth_key(c)
            if key is not None:
                pol = not (isinstance(c, SymBool) and c.neg)
                self.run.set_assumption(key, pol)

    def _truth_key(self, c: Value) -> Any:
        if isinstance(c, SymBool):
            return ("truth", "b", c.tag)
        if isinstance(c, Unknown):
            return ("truth", "u", c.tag)
        return None

    def st_Raise(self, st: ast.Raise, fr: Frame) -> None:
        if st.exc is None:
            cur = fr.locals.get("$current_exc")
            if isinstance(cur, ExcV):
                self.run.event("reraise", exc=cur, node=st)
                raise RaiseEx(cur)
            raise self.unsupported("bare raise outside handler", st, fr)
        e = self.eval(st.exc, fr)
        cause = self.eval(st.cause, fr) if st.cause is not None else None
        if isinstance(e, ClassV):
            e = ExcV(e.cls.name, [])
        elif isinstance(e, Extern):
            e = ExcV(e.name.split(".")[-1], [])
        if isinstance(e, Unknown):
            e = ExcV("Exception", [e])
        if not isinstance(e, ExcV):
            raise self.unsupported(f"raise of {e!r}", st, fr)
        if e.node is None:
            e.node = st
            e.where = f"{self.p.rel(fr.module)}:{st.lineno} {fr.func.qualname if fr.func else '<module>'}"
        if isinstance(cause, ExcV):
            e.cause = cause
        self.run.event("raise", exc=e, where=e.where)
        raise RaiseEx(e)

    def st_For(self, st: ast.For, fr: Frame) -> None:
        it = self.eval(st.iter, fr)
        broke = False
        for kind, elem, src in self.bi.iterate(it, st, fr):
            if kind == "abs":
                fr.abs_loop.append(src)
            try:
                self.assign(st.target, elem, fr)
                try:
                    self.exec_block(st.body, fr)
                except ContinueEx:
                    pass
                except BreakEx:
                    broke = True
                    break
            finally:
                if kind == "abs":
                    fr.abs_loop.pop()
        if not broke:
            self.exec_block(st.orelse, fr)

    def st_While(self, st: ast.While, fr: Frame) -> None:
        n = 0
        while True:
            c = self.eval(st.test, fr)
            if not self.is_concrete(c) and not isinstance(c, BoolV):
                # a loop on abstract data: follow at most two iterations, then leave it (recorded)
                if n >= 2:
                    self.run.event("while_abstracted", node=st, func=fr.func.qualname if fr.func else "")
                    break
                if not self.truth(c, self.up(st.test) + f" [iteration {n + 1}]") :
                    break
                n += 1
                try:
                    self.exec_block(st.body, fr)
                except ContinueEx:
                    continue
                except BreakEx:
                    break
                continue
            if not self.truth(c):
                break
            n += 1
            if n > 10000:
                raise self.unsupported("while loop does not terminate", st, fr)
            try:
                self.exec_block(st.body, fr)
            except ContinueEx:
                continue
            except BreakEx:
                break

    def st_With(self, st: ast.With, fr: Frame) -> None:
        managers: List[Obj] = []
        for item in st.items:
            v = self.eval(item.context_expr, fr)
            self.run.event("with", ctx=v, node=st)
            bound = v
            if isinstance(v, Obj) and v.cls.find_method("__exit__") is not None:
                # a context manager written in the repository: __enter__ / __exit__ are interpreted (an __exit__ that returns
                # a true value swallows the exception raised in the body)
                ent = v.cls.find_method("__enter__")
                if ent is not None:
                    bound = self.call_func(ent, [], {}, v, st, fr)
                managers.append(v)
            if item.optional_vars is not None:
                self.assign(item.optional_vars, bound, fr)
        if not managers:
            self.exec_block(st.body, fr)
            return
        fr.try_depth += 1          # calls in the body are explored with their failing outcomes too: __exit__ may see them
        try:
            try:
                self.exec_block(st.body, fr)
            finally:
                fr.try_depth -= 1
        except RaiseEx as r:
            for m in reversed(managers):
                ex = m.cls.find_method("__exit__")
                res = self.call_func(ex, [Extern(r.exc.type_name), r.exc, Unknown(self.run.new_tag("traceback"), {"truthy": True, "not_none": True})],
                                     {}, m, st, fr)
                if self.truth(res, f"{m.cls.name}.__exit__ returns a true value"):
                    self.run.event("caught", exc=r.exc, handler=st, func=fr.func.qualname if fr.func else "", by_exit=m.cls.name)
                    self.run.event("exception_swallowed_by_exit", exc=r.exc, manager=m.cls.name, node=st,
                                   func=fr.func.qualname if fr.func else "")
                    return
            raise
        for m in reversed(managers):
            self.call_func(m.cls.find_method("__exit__"), [NONE, NONE, NONE], {}, m, st, fr)

    def st_Try(self, st: ast.Try, fr: Frame) -> None:
        try:
            fr.try_depth += 1
            try:
                self.exec_block(st.body, fr)
            finally:
                fr.try_depth -= 1
            self.exec_block(st.orelse, fr)
        except RaiseEx as r:
            handled = False
            for h in st.handlers:
                names: List[str] = []
                if h.type is None:
                    names = ["BaseException"]
                else:
                    tv = self.eval(h.type, fr)
                    for x in (tv.items if isinstance(tv, TupleV) else [tv]):
                        if isinstance(x, ClassV):
                            names.append(x.cls.name)
                        elif isinstance(x, Extern):
                            names.append(x.name.split(".")[-1])
                        else:
                            raise self.unsupported("except type", h, fr)
                if any(self.exc_matches(r.exc, n) or n == "BaseException" for n in names):
                    handled = True
                    self.run.event("caught", exc=r.exc, handler=h, func=fr.func.qualname if fr.func else "")
                    saved = fr.locals.get("$current_exc")
                    fr.locals["$current_exc"] = r.exc
                    if h.name:
                        fr.locals[h.name] = r.exc
                    try:
                        self.exec_block(h.body, fr)
                    finally:
                        if saved is None:
                            fr.locals.pop("$current_exc", None)
                        else:
                            fr.locals["$current_exc"] = saved
                    break
            if not handled:
                self.exec_block(st.finalbody, fr)
                raise
        except (ReturnEx, BreakEx, ContinueEx):
            self.exec_block(st.finalbody, fr)
            raise
        self.exec_block(st.finalbody, fr)

    def st_Match(self, st: ast.Match, fr: Frame) -> None:
        subj = self.eval(st.subject, fr)
        for case in st.cases:
            if self.bi.match_pattern(subj, case.pattern, fr, self.up(st.subject)):
                if case.guard is not None and not self.truth(self.eval(case.guard, fr), self.up(case.guard)):
                    continue
                self.exec_block(case.body, fr)
                return

    # ------------------------------------------------------------------ expressions
    def eval(self, e: ast.expr, fr: Frame) -> Value:
        m = getattr(self, "ex_" + type(e).__name__, None)
        if m is None:
            raise self.unsupported(f"expression {type(e).__name__}", e, fr)
        return m(e, fr)

    def ex_Constant(self, e: ast.Constant, fr: Frame) -> Value:
        v = e.value
        if v is None:
            return NONE
        if isinstance(v, bool):
            return TRUE if v else FALSE
        if isinstance(v, int):
            return IntV(v)
        if isinstance(v, float):
            return FloatV(v)
        if isinstance(v, str):
            return Str.lit(v)
        if v is Ellipsis:
            return Unknown("...")
        raise self.unsupported(f"constant {v!r}", e, fr)

    def ex_Name(self, e: ast.Name, fr: Frame) -> Value:
        return self.lookup(e.id, fr, e)

    def ex_Attribute(self, e: ast.Attribute, fr: Frame) -> Value:
        return self.get_attr(self.eval(e.value, fr), e.attr, e, fr)

    def ex_JoinedStr(self, e: ast.JoinedStr, fr: Frame) -> Value:
        out = Str(())
        for part in e.values:
            if isinstance(part, ast.Constant):
                out = out + Str.lit(str(part.value))
            else:
                assert isinstance(part, ast.FormattedValue)
                v = self.eval(part.value, fr)
                if part.format_spec is not None or part.conversion not in (-1, 115):
                    if part.conversion == 114:
                        v = Str((Hole(self.run.new_tag("repr"), "repr"),))
                    elif part.format_spec is not None:
                        v = Str((Hole(self.run.new_tag("formatted"), "formatted"),))
                out = out + self.bi.to_str(v, part, fr)
        return out

    def ex_BinOp(self, e: ast.BinOp, fr: Frame) -> Value:
        return self.binop(e.op, self.eval(e.left, fr), self.eval(e.right, fr), e, fr)

    def binop(self, op: ast.operator, a: Value, b: Value, node: ast.AST, fr: Frame) -> Value:
        return self.bi.binop(op, a, b, node, fr)

    def ex_UnaryOp(self, e: ast.UnaryOp, fr: Frame) -> Value:
        v = self.eval(e.operand, fr)
        if isinstance(e.op, ast.Not):
            if isinstance(v, SymBool):
                return SymBool(v.tag, not v.neg, v.meta)
            if isinstance(v, Unknown) and "truthy" not in v.meta:
                return SymBool(v.tag, True, {"of": v})
            return FALSE if self.truth(v, self.up(e.operand)) else TRUE
        if isinstance(e.op, ast.USub) and isinstance(v, IntV):
            return IntV(-v.v)
        if isinstance(e.op, ast.USub) and isinstance(v, Unknown):
            return Unknown(f"-{v.tag}")
        raise self.unsupported("unary operator", e, fr)

    def ex_BoolOp(self, e: ast.BoolOp, fr: Frame) -> Value:
        last: Value = NONE
        for i, sub in enumerate(e.values):
            last = self.eval(sub, fr)
            if i == len(e.values) - 1:
                return last
            t = self.truth(last, self.up(sub))
            if isinstance(e.op, ast.And) and not t:
                return last if self.is_concrete(last) else FALSE
            if isinstance(e.op, ast.Or) and t:
                return last if not isinstance(last, (SymBool,)) else TRUE
        return last

    def ex_IfExp(self, e: ast.IfExp, fr: Frame) -> Value:
        if self.truth(self.eval(e.test, fr), self.up(e.test)):
            return self.eval(e.body, fr)
        return self.eval(e.orelse, fr)

    def ex_Compare(self, e: ast.Compare, fr: Frame) -> Value:
        left = self.eval(e.left, fr)
        result: Value = TRUE
        for op, rhs_e in zip(e.ops, e.comparators):
            right = self.eval(rhs_e, fr)
            r = self.bi.compare(op, left, right, e, fr)
            if len(e.ops) == 1:
                return r
            if not self.truth(r, self.up(e)):
                return FALSE
            result = r
            left = right
        return result

    def ex_List(self, e: ast.List, fr: Frame) -> Value:
        stars = [x for x in e.elts if isinstance(x, ast.Starred)]
        if len(stars) == 1 and e.elts[-1] is stars[0]:
            v = self.eval(stars[0].value, fr)
            if isinstance(v, ListV) and v.absorbed is not None:
                v = v.absorbed
            if isinstance(v, AbsList):
                pre = self._elts(e.elts[:-1], fr)
                return AbsList(v.elem, v.src, dict(v.flags, prefix_items=list(v.flags.get("prefix_items", [])) + pre, mixed=True))
        return ListV(self._elts(e.elts, fr))

    def ex_Tuple(self, e: ast.Tuple, fr: Frame) -> Value:
        return TupleV(self._elts(e.elts, fr))

    def ex_Set(self, e: ast.Set, fr: Frame) -> Value:
        return SetV(self._elts(e.elts, fr))

    def _elts(self, elts: List[ast.expr], fr: Frame) -> List[Value]:
        out: List[Value] = []
        for x in elts:
            if isinstance(x, ast.Starred):
                v = self.eval(x.value, fr)
                if isinstance(v, (ListV, TupleV)) and getattr(v, "absorbed", None) is None:
                    out.extend(v.items)
                else:
                    raise self.unsupported("starred abstract value", x, fr)
            else:
                out.append(self.eval(x, fr))
        return out

    def ex_Dict(self, e: ast.Dict, fr: Frame) -> Value:
        pairs = []
        for k, v in zip(e.keys, e.values):
            if k is None:
                d = self.eval(v, fr)
                if not isinstance(d, DictV):
                    raise self.unsupported("** of abstract dict", e, fr)
                pairs.extend(d.pairs)
            else:
                pairs.append((self.eval(k, fr), self.eval(v, fr)))
        return DictV(pairs)

    def ex_Subscript(self, e: ast.Subscript, fr: Frame) -> Value:
        base = self.eval(e.value, fr)
        if isinstance(e.slice, ast.Slice):
            lo = self.eval(e.slice.lower, fr) if e.slice.lower is not None else NONE
            hi = self.eval(e.slice.upper, fr) if e.slice.upper is not None else NONE
            stp = self.eval(e.slice.step, fr) if e.slice.step is not None else NONE
            return self.bi.slice(base, lo, hi, stp, e, fr)
        return self.bi.subscript(base, self.eval(e.slice, fr), e, fr)

    def ex_Slice(self, e: ast.Slice, fr: Frame) -> Value:
        raise self.unsupported("bare slice", e, fr)

    def ex_Lambda(self, e: ast.Lambda, fr: Frame) -> Value:
        a = e.args
        if a.vararg is not None or a.kwarg is not None:
            raise self.unsupported("lambda with *args/**kwargs", e, fr)
        pos = a.posonlyargs + a.args
        defaults = {}
        for prm, d in zip(pos[len(pos) - len(a.defaults):], a.defaults):
            defaults[prm.arg] = self.eval(d, fr)           # defaults are evaluated once, at definition
        for prm, d in zip(a.kwonlyargs, a.kw_defaults):
            if d is not None:
                defaults[prm.arg] = self.eval(d, fr)
        return LambdaV(e, fr, defaults)

    def ex_Starred(self, e: ast.Starred, fr: Frame) -> Value:
        raise self.unsupported("starred expression", e, fr)

    def ex_NamedExpr(self, e: ast.NamedExpr, fr: Frame) -> Value:
        v = self.eval(e.value, fr)
        self.assign(e.target, v, fr)
        return v

    def ex_Call(self, e: ast.Call, fr: Frame) -> Value:
        # super()
        if isinstance(e.func, ast.Name) and e.func.id == "super" and "super" not in fr.locals:
            if e.args:
                cv = self.eval(e.args[0], fr)
                sv = self.eval(e.args[1], fr)
                assert isinstance(cv, ClassV)
                return SuperV(sv, cv.cls)
            if fr.self_val is None and "cls" in fr.locals:
                return SuperV(fr.locals["cls"], fr.def_cls)
            if fr.self_val is None:
                raise self.unsupported("super() outside a method", e, fr)
            return SuperV(fr.self_val, fr.def_cls)
        f = self.eval(e.func, fr)
        args: List[Value] = []
        for a in e.args:
            if isinstance(a, ast.Starred):
                v = self.eval(a.value, fr)
                if isinstance(v, (ListV, TupleV)) and getattr(v, "absorbed", None) is None:
                    args.extend(v.items)
                else:
                    raise self.unsupported("*args of abstract value", a, fr)
            else:
                args.append(self.eval(a, fr))
        kwargs: Dict[str, Value] = {}
        for k in e.keywords:
            if k.arg is None:
                d = self.eval(k.value, fr)
                if isinstance(d, DictV) and all(isinstance(x, Str) and x.is_concrete() for x, _ in d.pairs):
                    for x, y in d.pairs:
                        kwargs[x.text()] = y  # type: ignore[union-attr]
                else:
                    raise self.unsupported("**kwargs of abstract value", e, fr)
            else:
                kwargs[k.arg] = self.eval(k.value, fr)
        self.run.event("call", func_value=f, args=args, kwargs=kwargs, node=e,
                       caller=fr.func.qualname if fr.func else "<module>", module=fr.module)
        return self.call_value(f, args, kwargs, e, fr)

    def ex_ListComp(self, e: ast.ListComp, fr: Frame) -> Value:
        return self.bi.comprehension(e, e.elt, e.generators, fr, "list")

    def ex_GeneratorExp(self, e: ast.GeneratorExp, fr: Frame) -> Value:
        v = self.bi.comprehension(e, e.elt, e.generators, fr, "list")
        if isinstance(v, (ListV, AbsList)):
            if isinstance(v, ListV):
                v = ListV(list(v.items)) if v.absorbed is None else v
            v.one_shot = True        # type: ignore[union-attr]  (a generator object: consumed by its first use)
        return v

    def ex_SetComp(self, e: ast.SetComp, fr: Frame) -> Value:
        v = self.bi.comprehension(e, e.elt, e.generators, fr, "list")
        if isinstance(v, ListV) and v.absorbed is None:
            out: List[Value] = []
            for x in v.items:
                if not any(self.try_equals(x, y) is True for y in out):
                    out.append(x)
            return SetV(out)
        return v

    def ex_DictComp(self, e: ast.DictComp, fr: Frame) -> Value:
        pair = ast.Tuple(elts=[e.key, e.value], ctx=ast.Load())
        ast.copy_location(pair, e)
        ast.fix_missing_locations(pair)
        lst = self.bi.comprehension(e, pair, e.generators, fr, "list")
        if isinstance(lst, ListV) and lst.absorbed is None:
            d = DictV([])
            for kv in lst.items:
                assert isinstance(kv, TupleV)
                self.bi.store_subscript(d, kv.items[0], kv.items[1], e, fr)
            return d
        raise self.unsupported("dict comprehension over an abstract iterable", e, fr)

    def ex_Await(self, e: ast.Await, fr: Frame) -> Value:
        raise self.unsupported("await", e, fr)

    def ex_Yield(self, e: ast.Yield, fr: Frame) -> Value:
        ys = fr.locals.get("$yields")
        if not isinstance(ys, ListV):
            raise self.unsupported("yield outside an eagerly evaluated generator", e, fr)
        self.bi.list_append(ys, self.eval(e.value, fr) if e.value is not None else NONE, e, fr)
        return NONE

    def ex_YieldFrom(self, e: ast.YieldFrom, fr: Frame) -> Value:
        ys = fr.locals.get("$yields")
        if not isinstance(ys, ListV):
            raise self.unsupported("yield from outside an eagerly evaluated generator", e, fr)
        self.bi.list_extend(ys, self.eval(e.value, fr), e, fr)
        return NONE
