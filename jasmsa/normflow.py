"""normflow -- the operand normaliser as a decision table: abstract operand classes (which of the
syntactic tests hold) -> canonical output template; and the line regexes of the parser."""
from __future__ import annotations

import itertools
import re
from typing import Any, Dict, List, Optional, Tuple

from . import rx
from .absint import Interp, Path
from .facts import AnalysisError
from .values import Hole, Join, ListV, Lit, Str, Value

PREDS = ["sw(", "ew)", "has,", "has(", "has)", "sw$", "sw%"]


def canon_slices(s: str) -> str:
    return s.replace("[1:][:-1]", "[1:-1]").replace("[1:None:None][None:-1:None]", "[1:-1]")


def canon_pattern(p: Any) -> str:
    """regex text normalised through the regex parser (spelling of escapes is immaterial)"""
    try:
        n = rx.parse(str(p))
    except AnalysisError:
        return str(p)
    if not rx.backrefs(n):
        # what the pattern matches does not depend on which of its parts are captured
        def uncap(x: Any) -> Any:
            if isinstance(x, rx.Group):
                return rx.Group("nc" if x.kind == "cap" else x.kind, uncap(x.body), 0, None)
            if isinstance(x, rx.Rep):
                return rx.Rep(uncap(x.body), x.lo, x.hi, x.lazy, x.whole)
            if isinstance(x, rx.Seq):
                return rx.Seq([uncap(i) for i in x.items])
            if isinstance(x, rx.Alt):
                return rx.Alt([uncap(b) for b in x.branches])
            return x
        n = rx.strip_groups(uncap(n))
    return repr(n)


def slot(h: Hole) -> str:
    if h.base is not None:
        op = h.xform[-1] if h.xform else "?"
        op = op.replace("None", "")
        return canon_slices(slot(h.base) + op)
    if h.kind == "operand":
        return "OP"
    if h.kind == "match":
        subj = h.meta.get("subject")
        return f"M<{canon_pattern(h.meta.get('pattern'))}|{desc(subj) if isinstance(subj, Str) else '?'}>"
    m = h.meta
    if m.get("op") == "replace" and isinstance(m.get("of"), Str):
        old, new = m["args"]
        if isinstance(new, Str) and new.is_concrete() and new.text() == "" and isinstance(old, Str):
            return f"({desc(m['of'])} minus {desc(old) if not old.is_concrete() else repr(old.text())})"
        return f"?replace({desc(m['of'])})"
    if "split_of" in m and "index" in m:
        of = m.get("of")
        return f"split({desc(of) if isinstance(of, Str) else m['split_of']},{m['sep']!r})[{m['index']}]"
    return "?" + h.tag


def desc(s: Str) -> str:
    out = ""
    for a in s.atoms:
        if isinstance(a, Lit):
            out += a
        elif isinstance(a, Hole):
            out += slot(a)
        else:
            out += "?join"
    return out


def pred_of(key: Any) -> Optional[str]:
    if not isinstance(key, tuple):
        return None
    if key[0] in ("startswith", "endswith") and len(key) == 3 and key[1] == "<OP>":
        return ("sw" if key[0] == "startswith" else "ew") + str(key[2])
    if key[0] == "in" and len(key) == 3 and key[2] == ("s", "<OP>") and isinstance(key[1], tuple):
        return "has" + str(key[1][1])
    return None


def normalise_one(I: Interp, operand: Value) -> Value:
    """what the operand normaliser makes of ONE operand: OperandsParser(<a one-operand list>).parse(), its single
    element. The per-operand method is reached through the class's public entry, whatever it is called."""
    op = I.p.find_class("OperandsParser")
    if op is None:
        raise AnalysisError("anchor class OperandsParser not found")
    pm = op.find_method("parse")
    if pm is None:
        raise AnalysisError("anchor OperandsParser.parse not found")
    o = I.construct(op, [ListV([operand])], {}, None, None)
    r = I.call_func(pm, [], {}, o, None, None)
    if isinstance(r, ListV) and r.absorbed is not None:
        r = r.absorbed
    if isinstance(r, ListV) and len(r.items) == 1:
        return r.items[0]
    raise AnalysisError(f"OperandsParser.parse of a one-operand list does not give a one-element list: {r!r}")


def normaliser_paths(I: Interp) -> List[Path]:
    return I.explore(lambda I: normalise_one(I, Str((Hole("OP", "operand", True),))))


M = "M<" + canon_pattern(r"\([^\)]*\)") + "|OP>"
SPEC = {
    "R3": f"[(split(OP,',')[0] minus '(')+split(OP,',')[1]*(split(OP,',')[2] minus ')')]",
    "R1": "[OP[1:-1]]",
    "R4": f"[(split({M},',')[0] minus '(')+split({M},',')[1]*(split({M},',')[2] minus ')')+(OP minus {M})]",
    "Rk": f"[{M}[1:-1]+(OP minus {M})]",
    # the scale-less forms of 16-bit addressing, (a,b) and k(a,b): only on the path where the parenthesised part has two pieces
    "R3b": f"[(split(OP,',')[0] minus '(')+(split(OP,',')[1] minus ')')]",
    "R4b": f"[(split({M},',')[0] minus '(')+(split({M},',')[1] minus ')')+(OP minus {M})]",
    "R$": "OP[1:]",
    "ID": "OP",
}


def spec_row(a: Dict[str, bool]) -> str:
    if a["sw("] and a["ew)"]:
        return "R3" if a["has,"] else "R1"
    if a["has("] and a["has)"]:
        return "R4" if a["has,"] else "Rk"
    if a["sw$"]:
        return "R$"
    return "ID"


def feasible(a: Dict[str, bool]) -> bool:
    if a["sw("] and not a["has("]:
        return False
    if a["ew)"] and not a["has)"]:
        return False
    if sum([a["sw("], a["sw$"], a["sw%"]]) > 1:
        return False
    return True


def is_normal(path: Path) -> bool:
    for key, val, label in path.conds:
        if pred_of(key) is not None:
            continue
        if isinstance(key, tuple) and key[0] == "truth" and "search" in str(key) and not val:
            return False   # the parenthesised part exists when '(' and ')' are present (AT&T forms)
    lens = [val for key, val, _ in path.conds if isinstance(key, tuple) and key[0] == "eq" and "len(" in str(key)]
    if lens and not any(lens):
        return False       # a number of comma-separated pieces that no AT&T form has (neither two nor three)
    return True


def decision_table(I: Interp) -> List[Tuple[Dict[str, bool], str, List[str], List[str]]]:
    """for every feasible operand class: (assignment, expected row, outputs of the matching normal
    returning paths, raising paths' descriptions)"""
    paths = normaliser_paths(I)
    out = []
    for bits in itertools.product([False, True], repeat=len(PREDS)):
        a = dict(zip(PREDS, bits))
        if not feasible(a):
            continue
        outs: List[str] = []
        raises: List[str] = []
        for p in paths:
            ok = True
            for key, val, _ in p.conds:
                pr = pred_of(key)
                if pr is not None and pr in a and a[pr] != val:
                    ok = False
                    break
                if pr is not None and pr not in a:
                    # a test on the operand the spec does not know: cannot classify
                    ok = False
                    raises.append(f"unknown-test:{pr}")
                    break
            if not ok or not is_normal(p):
                continue
            if p.kind == "return" and isinstance(p.value, Str):
                outs.append(desc(p.value))
            elif p.kind == "return":
                outs.append(repr(p.value))
            else:
                raises.append(repr(p.exc)[:60])
        out.append((a, spec_row(a), sorted(set(outs)), sorted(set(raises))))
    return out


def decision_table_if_applicable(ctx, I: Interp) -> List[Tuple[Dict[str, bool], str, List[str], List[str]]]:
    """the decision table, or nothing (with a note) when OperandsParser cannot be driven with a list of operand strings:
    the operand forms are then judged on token templates through the line parser only, and the instance floors of the
    table's rules keep the check from passing on that alone"""
    try:
        return decision_table(I)
    except AnalysisError as exc:
        ctx.notes.append(f"operand decision table not applicable: {exc}"[:300])
        return []


# ------------------------------------------------------------------ line regexes
def folded_constant(I: Interp, module: str, name: str) -> str:
    from .absint import Frame
    I.run = type(I.run)([])
    v = I.module_name(module, name, None, None)
    if not (isinstance(v, Str) and v.is_concrete()):
        raise AnalysisError(f"constant {module}.{name} does not fold to a string")
    return v.text()


# rows that may appear next to the main row of a class (decided by the number of comma-separated pieces, which the
# syntactic class does not fix); the listed forms themselves are decided exactly by the shape rules (shapes.py)
ALSO = {"R3": ["R3b"], "R4": ["R4b"]}
