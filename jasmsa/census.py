"""census -- whole-program census of process-global mutable state (C14.H1)."""
from __future__ import annotations

import ast
from typing import Dict, List, Tuple

from .astq import MUTATORS, functions_with_module
from .facts import Program, _dotted, decorator_names

MUTABLE_CALLS = {"list", "dict", "set", "defaultdict", "deque", "OrderedDict", "Counter", "bytearray", "WeakValueDictionary"}
MEMO_DECORATORS = {"lru_cache", "cache", "cached_property", "functools.lru_cache", "functools.cache",
                   "functools.cached_property", "memoize", "lru_cache(...)", "functools.lru_cache(...)", "cache(...)"}


def is_mutable_value(e: ast.expr) -> bool:
    if isinstance(e, (ast.List, ast.Dict, ast.Set, ast.ListComp, ast.DictComp, ast.SetComp)):
        return True
    if isinstance(e, ast.Call):
        return _dotted(e.func).split(".")[-1] in MUTABLE_CALLS
    return False


CLASS_CREATION_HOOKS = ("__init_subclass__", "__set_name__", "__class_getitem__")


def name_mutations(p: Program, names: set) -> Dict[str, List[str]]:
    """where a (module- or class-level) name is mutated in place or rebound: X.append(..), X[k] = .., self.X[k] = ..,
    cls.X = .., ClassName.X = .., global X"""
    out: Dict[str, List[str]] = {n: [] for n in names}
    for m, f in functions_with_module(p):
        if f.name in CLASS_CREATION_HOOKS:
            continue        # runs once per class while the module is imported: not an operation of the program
        for n in ast.walk(f.node):
            if isinstance(n, ast.Global):
                for g in n.names:
                    if g in out:
                        out[g].append(f"{f.qualname}: global {g}")
            tgt = None
            if isinstance(n, ast.Call) and isinstance(n.func, ast.Attribute) and n.func.attr in MUTATORS:
                tgt = n.func.value
                kind = f".{n.func.attr}()"
            elif isinstance(n, (ast.Assign, ast.AugAssign, ast.AnnAssign, ast.Delete)):
                ts = n.targets if isinstance(n, (ast.Assign, ast.Delete)) else [n.target]
                for t in ts:
                    if isinstance(t, ast.Subscript):
                        base = t.value
                        nm = base.attr if isinstance(base, ast.Attribute) else base.id if isinstance(base, ast.Name) else None
                        if nm in out:
                            out[nm].append(f"{f.qualname}: {nm}[..] = ..")
                    if isinstance(t, ast.Attribute) and t.attr in out and isinstance(t.value, ast.Name) and \
                            t.value.id not in ("self",):
                        out[t.attr].append(f"{f.qualname}: {t.value.id}.{t.attr} = ..")
                continue
            if tgt is not None:
                nm = tgt.attr if isinstance(tgt, ast.Attribute) else tgt.id if isinstance(tgt, ast.Name) else None
                if nm in out:
                    # a local variable of the same name is not the global
                    if isinstance(tgt, ast.Name) and any(isinstance(x, (ast.Assign, ast.AnnAssign)) and any(
                            isinstance(t, ast.Name) and t.id == nm for t in (x.targets if isinstance(x, ast.Assign) else [x.target]))
                            for x in ast.walk(f.node)):
                        continue
                    out[nm].append(f"{f.qualname}: {nm}{kind}")
    return out


READ_METHODS = {"get", "items", "keys", "values", "index", "count", "copy", "__contains__", "__getitem__", "__len__", "__iter__",
                "issubset", "issuperset", "isdisjoint", "union", "intersection", "difference"}
PURE_CONSUMERS = {"len", "sorted", "tuple", "list", "set", "frozenset", "dict", "any", "all", "enumerate", "zip", "reversed", "iter",
                  "max", "min", "sum", "map", "filter", "isinstance", "repr", "str", "join", "startswith", "endswith", "chain"}


def _read_only_in(tree: ast.AST, name: str, p: Program, depth: int, where: str) -> List[str]:
    """uses of `name` inside `tree` that are not plain reads (see read_only_uses)"""
    bad: List[str] = []
    parents: Dict[int, ast.AST] = {}
    for n in ast.walk(tree):
        for c in ast.iter_child_nodes(n):
            parents[id(c)] = n
    for n in ast.walk(tree):
        if not (isinstance(n, ast.Name) and n.id == name and isinstance(n.ctx, ast.Load)):
            continue
        par = parents.get(id(n))
        ok = False
        if isinstance(par, ast.Subscript) and par.value is n and isinstance(par.ctx, ast.Load):
            ok = True
        elif isinstance(par, ast.Compare) and n in par.comparators and all(isinstance(o, (ast.In, ast.NotIn)) for o in par.ops):
            ok = True
        elif isinstance(par, (ast.For, ast.comprehension)) and par.iter is n:
            ok = True
        elif isinstance(par, ast.Attribute) and par.value is n and par.attr in READ_METHODS:
            ok = True
        elif isinstance(par, ast.Call) and n in par.args and _dotted(par.func).split(".")[-1] in PURE_CONSUMERS:
            ok = True
        elif isinstance(par, ast.Starred):
            gp = parents.get(id(par))
            ok = isinstance(gp, ast.Call) and _dotted(gp.func).split(".")[-1] in PURE_CONSUMERS
        elif isinstance(par, (ast.JoinedStr, ast.FormattedValue)):
            ok = True
        elif depth > 0 and (isinstance(par, ast.keyword) or (isinstance(par, ast.Call) and n in par.args)):
            # handed to a function of the program: fine if that function only reads the parameter
            call = parents.get(id(par)) if isinstance(par, ast.keyword) else par
            if isinstance(call, ast.Call):
                fname = _dotted(call.func).split(".")[-1]
                cands = [f for _, f in functions_with_module(p) if f.name == fname]
                if len(cands) == 1:
                    f = cands[0]
                    params = [a.arg for a in f.node.args.args + f.node.args.kwonlyargs]
                    if isinstance(par, ast.keyword):
                        pname = par.arg
                    else:
                        off = 1 if params and params[0] in ("self", "cls") and isinstance(call.func, ast.Attribute) else 0
                        i = call.args.index(n) + off
                        pname = params[i] if i < len(params) else None
                    if pname in params:
                        inner = _read_only_in(f.node, pname, p, depth - 1, f.qualname)
                        ok = not inner
        if not ok:
            bad.append(f"{where}:{n.lineno} {type(par).__name__}")
    return bad


def read_only_uses(p: Program, name: str, defining_module: str) -> List[str]:
    """uses of a module-level name that could let the object be mutated elsewhere (aliasing, escaping as an argument or
    a return value, being stored); an empty list means every use is a read: X[k], k in X, for .. in X, X.get(..),
    len(X), tuple(X), s.startswith(X) ..."""
    bad: List[str] = []
    for m in p.modules.values():
        imported = m.name == defining_module or any(
            isinstance(n, ast.ImportFrom) and any((a.asname or a.name) == name for a in n.names) for n in ast.walk(m.tree))
        if not imported:
            continue
        bad += _read_only_in(m.tree, name, p, 2, m.rel())
    return bad


MUTATORS = {"append", "extend", "insert", "remove", "pop", "clear", "add", "discard", "update", "setdefault", "sort", "reverse",
            "popitem", "__setitem__", "__delitem__"}


def _mutating_methods(c) -> set:
    out = set()
    for k in c.mro():
        for mname, f in k.methods.items():
            if mname in ("__init__", "__post_init__", "__new__"):
                continue
            for n in ast.walk(f.node):
                hit = False
                if isinstance(n, (ast.Assign, ast.AugAssign, ast.AnnAssign)):
                    for t in (n.targets if isinstance(n, ast.Assign) else [n.target]):
                        if isinstance(t, (ast.Attribute, ast.Subscript)) and any(
                                isinstance(x, ast.Name) and x.id in ("self", "cls") for x in ast.walk(t)):
                            hit = True
                if isinstance(n, ast.Delete) and any(isinstance(x, ast.Name) and x.id in ("self", "cls") for t in n.targets for x in ast.walk(t)):
                    hit = True
                if isinstance(n, ast.Call) and isinstance(n.func, ast.Attribute) and n.func.attr in MUTATORS and any(
                        isinstance(x, ast.Name) and x.id in ("self", "cls") for x in ast.walk(n.func.value)):
                    hit = True
                if hit:
                    out.add(mname)
    return out


def filled_at_import_only(p: Program, module: str, name: str, call: ast.Call) -> bool:
    """a module-level instance of a repository class whose mutating methods are only ever called on it by module-level
    statements of its own module (a registry filled while the module is imported, constant from then on), and which is not
    handed out in any way that would let other code mutate it (uses are method calls and iteration only)"""
    c = p.try_class(_dotted(call.func).split(".")[-1])
    if c is None:
        return False
    mut = _mutating_methods(c)
    for m in p.modules.values():
        imported = m.name == module or any(
            isinstance(n, ast.ImportFrom) and any((a.asname or a.name) == name for a in n.names) for n in ast.walk(m.tree))
        if not imported:
            continue
        top = {id(st.value) for st in m.tree.body if isinstance(st, ast.Expr)} if m.name == module else set()
        parents = {}
        for node in ast.walk(m.tree):
            for ch in ast.iter_child_nodes(node):
                parents[id(ch)] = node
        for n in ast.walk(m.tree):
            if not (isinstance(n, ast.Name) and n.id == name and isinstance(n.ctx, ast.Load)):
                continue
            par = parents.get(id(n))
            if isinstance(par, ast.Attribute) and par.value is n:
                gp = parents.get(id(par))
                if isinstance(gp, ast.Call) and gp.func is par:
                    if par.attr in mut and id(gp) not in top:
                        return False          # mutated from inside a function
                    continue
                return False                  # a field of the object is taken (could be mutated through it)
            if isinstance(par, (ast.For, ast.comprehension)) and getattr(par, "iter", None) is n:
                continue
            return False                      # aliased, passed on, returned ...
    return True


def immutable_instance(p: Program, call: ast.Call) -> bool:
    """is `call` the construction of an object that nothing can change afterwards: a bare object() sentinel, a NamedTuple or
    frozen dataclass of the repository, or an instance of a repository class none of whose methods (outside
    __init__/__post_init__/__new__) assigns, deletes or mutates anything reachable through self"""
    name = _dotted(call.func).split(".")[-1]
    if name == "object" and not call.args and not call.keywords:
        return True
    c = p.try_class(name)
    if c is None:
        return False
    if "NamedTuple" in c.all_extern_bases() or any("frozen=True" in d.replace(" ", "") for k in c.mro() for d in k.decorators):
        return True
    for k in c.mro():
        for mname, f in k.methods.items():
            if mname in ("__init__", "__post_init__", "__new__"):
                continue
            for n in ast.walk(f.node):
                tgt = None
                if isinstance(n, (ast.Assign, ast.AugAssign, ast.AnnAssign)):
                    for t in (n.targets if isinstance(n, ast.Assign) else [n.target]):
                        if isinstance(t, (ast.Attribute, ast.Subscript)) and any(
                                isinstance(x, ast.Name) and x.id in ("self", "cls") for x in ast.walk(t)):
                            tgt = t
                if isinstance(n, ast.Delete):
                    for t in n.targets:
                        if any(isinstance(x, ast.Name) and x.id in ("self", "cls") for x in ast.walk(t)):
                            tgt = t
                if isinstance(n, ast.Call) and isinstance(n.func, ast.Attribute) and n.func.attr in MUTATORS and any(
                        isinstance(x, ast.Name) and x.id in ("self", "cls") for x in ast.walk(n.func.value)):
                    tgt = n
                if tgt is not None:
                    return False
    return True


def global_state(p: Program) -> List[Tuple[str, str, str, str]]:
    """(kind, qualified name, where, detail) of every piece of process-global mutable state"""
    items: List[Tuple[str, str, str, str]] = []
    mod_level: Dict[str, Tuple[str, ast.expr, int]] = {}
    cls_level: Dict[str, Tuple[str, ast.expr, int]] = {}
    for m in p.modules.values():
        for name, node in m.const_nodes.items():
            v = m.consts[name]
            if is_mutable_value(v):
                mod_level[name] = (m.name, v, node.lineno)
            elif isinstance(v, ast.Call) and _dotted(v.func).split(".")[-1] not in (
                    "compile", "frozenset", "tuple", "Path", "str", "int", "TypeVar", "namedtuple", "auto", "field") and \
                    not immutable_instance(p, v) and not filled_at_import_only(p, m.name, name, v):
                items.append(("module-level object", f"{m.name}.{name}", f"{m.rel()}:{node.lineno}",
                              f"= {_dotted(v.func)}(...)"))
        for c in m.classes.values():
            if c.is_enum:
                continue
            for name, v in c.attrs.items():
                if is_mutable_value(v):
                    cls_level[name] = (f"{c.name}", v, getattr(v, "lineno", 0))
                if isinstance(v, ast.Constant) and v.value is None:
                    cls_level.setdefault(name, (f"{c.name}", v, getattr(v, "lineno", 0)))
                if isinstance(v, ast.Call) and _dotted(v.func).split(".")[-1] not in (
                        "compile", "frozenset", "tuple", "Path", "str", "int", "TypeVar", "namedtuple", "auto", "field",
                        "Lock", "RLock", "getLogger", "property", "staticmethod", "classmethod",
                        # builtins and str methods whose result is an immutable value
                        "len", "float", "bool", "bytes", "min", "max", "sum", "abs", "round", "ord", "chr", "repr", "hash", "range",
                        "join", "format", "lower", "upper", "strip", "lstrip", "rstrip", "replace", "title", "capitalize",
                        "encode", "escape") and not immutable_instance(p, v):
                    # an object created once for the class: shared by every instance and every operation of the process
                    # (threading.local() / ContextVar: state that additionally depends on the calling thread)
                    items.append(("class-level object", f"{c.name}.{name}", f"{m.rel()}:{getattr(v, 'lineno', 0)}",
                                  f"= {_dotted(v.func)}(...)"))
        for mm, f in [(m, f) for f in list(m.funcs.values())] + [(m, f) for c in m.classes.values() for f in c.methods.values()]:
            for d in decorator_names(f.node):
                if d in MEMO_DECORATORS or d.split("(")[0].split(".")[-1] in ("lru_cache", "cache", "cached_property", "memoize"):
                    items.append(("memoising decorator", f"{f.qualname}", f"{m.rel()}:{f.node.lineno}", f"@{d}"))
            a = f.node.args
            for d in list(a.defaults) + [x for x in a.kw_defaults if x is not None]:
                if is_mutable_value(d):
                    items.append(("mutable default argument", f.qualname, f"{m.rel()}:{f.node.lineno}", ast.unparse(d)))
            for n in ast.walk(f.node):
                if f.name in CLASS_CREATION_HOOKS:
                    break       # class-creation hooks run at import, once per class
                if isinstance(n, ast.Global):
                    items.append(("global statement", f"{f.qualname}", f"{m.rel()}:{n.lineno}", ",".join(n.names)))
                if isinstance(n, (ast.Assign, ast.AugAssign)):
                    for t in (n.targets if isinstance(n, ast.Assign) else [n.target]):
                        if isinstance(t, ast.Attribute) and isinstance(t.value, ast.Name) and (
                                t.value.id == "cls" or t.value.id in m.classes or p.try_class(t.value.id) is not None):
                            items.append(("class attribute assigned at run time", f"{t.value.id}.{t.attr}",
                                          f"{m.rel()}:{n.lineno}", f"in {f.qualname}"))
    muts = name_mutations(p, set(mod_level) | set(cls_level))
    # a class-level object handed, as `Cls.attr` / `self.attr`, to a function of the program that mutates that parameter in place
    # (sorts it "for display", appends to it ...) is mutated just the same
    for m, f in functions_with_module(p):
        if f.name in CLASS_CREATION_HOOKS:
            continue
        for call in ast.walk(f.node):
            if not isinstance(call, ast.Call):
                continue
            for pos, a in list(enumerate(call.args)) + [(k.arg, k.value) for k in call.keywords]:
                if not (isinstance(a, ast.Attribute) and a.attr in cls_level):
                    continue
                callee_name = call.func.attr if isinstance(call.func, ast.Attribute) else call.func.id if isinstance(call.func, ast.Name) else None
                cands = [g for _, g in functions_with_module(p) if g.name == callee_name]
                for g in cands:
                    params = [x.arg for x in g.node.args.posonlyargs + g.node.args.args + g.node.args.kwonlyargs]
                    if params and params[0] in ("self", "cls") and isinstance(call.func, ast.Attribute):
                        params_pos = params[1:]
                    else:
                        params_pos = params
                    pname = pos if isinstance(pos, str) else (params_pos[pos] if isinstance(pos, int) and pos < len(params_pos) else None)
                    if pname is None:
                        continue
                    for n in ast.walk(g.node):
                        hit = isinstance(n, ast.Call) and isinstance(n.func, ast.Attribute) and n.func.attr in MUTATORS and \
                            isinstance(n.func.value, ast.Name) and n.func.value.id == pname
                        hit = hit or (isinstance(n, (ast.Assign, ast.AugAssign)) and any(
                            isinstance(t, ast.Subscript) and isinstance(t.value, ast.Name) and t.value.id == pname
                            for t in (n.targets if isinstance(n, ast.Assign) else [n.target])))
                        if hit:
                            muts[a.attr].append(f"{f.qualname}: passed to {g.qualname}, which mutates its parameter {pname}")
                            break
    for name, (mod, v, line) in mod_level.items():
        if not muts[name]:
            esc = read_only_uses(p, name, mod)
            if not esc:
                continue    # a constant table: never mutated, never aliased, never handed to code that could mutate it
            items.append(("module-level mutable", f"{mod}.{name}", f"{p.rel(mod)}:{line}",
                          "never mutated by name, but escapes: " + "; ".join(esc[:3])))
            continue
        items.append(("module-level mutable", f"{mod}.{name}", f"{p.rel(mod)}:{line}", "mutated: " + "; ".join(muts[name])))
    for name, (cls, v, line) in cls_level.items():
        if muts[name]:
            items.append(("class-level mutable state", f"{cls}.{name}", f"line {line}", "mutated: " + "; ".join(muts[name])))
    return items
