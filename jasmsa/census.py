"""census -- whole-program census of process-global mutable state (C14.H1)."""
from __future__ import annotations

import ast
from typing import Dict, List, Tuple

from .astq import MUTATORS, functions_with_module
from .facts import Program, _dotted, decorator_names

MUTABLE_CALLS = {"list", "dict", "set", "defaultdict", "deque", "OrderedDict", "Counter", "bytearray", "WeakValueDictionary"}
MEMO_DECORATORS = {"lru_cache", "cache", "cached_property", "functools.lru_cache", "functools.cache",
                   "functools.cached_property", "memoize", "lru_cache(...)", "functools.lru_cache(...)", "cache(...)"}


def is_mutable_value(e: ast.expr) -> bool:
    if isinstance(e, (ast.List, ast.Dict, ast.Set, ast.ListComp, ast.DictComp, ast.SetComp)):
        return True
    if isinstance(e, ast.Call):
        return _dotted(e.func).split(".")[-1] in MUTABLE_CALLS
    return False


def name_mutations(p: Program, names: set) -> Dict[str, List[str]]:
    """where a (module- or class-level) name is mutated in place or rebound: X.append(..), X[k] = .., self.X[k] = ..,
    cls.X = .., ClassName.X = .., global X"""
    out: Dict[str, List[str]] = {n: [] for n in names}
    for m, f in functions_with_module(p):
        for n in ast.walk(f.node):
            if isinstance(n, ast.Global):
                for g in n.names:
                    if g in out:
                        out[g].append(f"{f.qualname}: global {g}")
            tgt = None
            if isinstance(n, ast.Call) and isinstance(n.func, ast.Attribute) and n.func.attr in MUTATORS:
                tgt = n.func.value
                kind = f".{n.func.attr}()"
            elif isinstance(n, (ast.Assign, ast.AugAssign, ast.AnnAssign, ast.Delete)):
                ts = n.targets if isinstance(n, (ast.Assign, ast.Delete)) else [n.target]
                for t in ts:
                    if isinstance(t, ast.Subscript):
                        base = t.value
                        nm = base.attr if isinstance(base, ast.Attribute) else base.id if isinstance(base, ast.Name) else None
                        if nm in out:
                            out[nm].append(f"{f.qualname}: {nm}[..] = ..")
                    if isinstance(t, ast.Attribute) and t.attr in out and isinstance(t.value, ast.Name) and \
                            t.value.id not in ("self",):
                        out[t.attr].append(f"{f.qualname}: {t.value.id}.{t.attr} = ..")
                continue
            if tgt is not None:
                nm = tgt.attr if isinstance(tgt, ast.Attribute) else tgt.id if isinstance(tgt, ast.Name) else None
                if nm in out:
                    # a local variable of the same name is not the global
                    if isinstance(tgt, ast.Name) and any(isinstance(x, (ast.Assign, ast.AnnAssign)) and any(
                            isinstance(t, ast.Name) and t.id == nm for t in (x.targets if isinstance(x, ast.Assign) else [x.target]))
                            for x in ast.walk(f.node)):
                        continue
                    out[nm].append(f"{f.qualname}: {nm}{kind}")
    return out


def global_state(p: Program) -> List[Tuple[str, str, str, str]]:
    """(kind, qualified name, where, detail) of every piece of process-global mutable state"""
    items: List[Tuple[str, str, str, str]] = []
    mod_level: Dict[str, Tuple[str, ast.expr, int]] = {}
    cls_level: Dict[str, Tuple[str, ast.expr, int]] = {}
    for m in p.modules.values():
        for name, node in m.const_nodes.items():
            v = m.consts[name]
            if is_mutable_value(v):
                mod_level[name] = (m.name, v, node.lineno)
            elif isinstance(v, ast.Call) and _dotted(v.func).split(".")[-1] not in (
                    "compile", "frozenset", "tuple", "Path", "str", "int", "TypeVar", "namedtuple", "auto", "field"):
                items.append(("module-level object", f"{m.name}.{name}", f"{m.rel()}:{node.lineno}",
                              f"= {_dotted(v.func)}(...)"))
        for c in m.classes.values():
            if c.is_enum:
                continue
            for name, v in c.attrs.items():
                if is_mutable_value(v):
                    cls_level[name] = (f"{c.name}", v, getattr(v, "lineno", 0))
                if isinstance(v, ast.Constant) and v.value is None:
                    cls_level.setdefault(name, (f"{c.name}", v, getattr(v, "lineno", 0)))
        for mm, f in [(m, f) for f in list(m.funcs.values())] + [(m, f) for c in m.classes.values() for f in c.methods.values()]:
            for d in decorator_names(f.node):
                if d in MEMO_DECORATORS or d.split("(")[0].split(".")[-1] in ("lru_cache", "cache", "cached_property", "memoize"):
                    items.append(("memoising decorator", f"{f.qualname}", f"{m.rel()}:{f.node.lineno}", f"@{d}"))
            a = f.node.args
            for d in list(a.defaults) + [x for x in a.kw_defaults if x is not None]:
                if is_mutable_value(d):
                    items.append(("mutable default argument", f.qualname, f"{m.rel()}:{f.node.lineno}", ast.unparse(d)))
            for n in ast.walk(f.node):
                if isinstance(n, ast.Global):
                    items.append(("global statement", f"{f.qualname}", f"{m.rel()}:{n.lineno}", ",".join(n.names)))
                if isinstance(n, (ast.Assign, ast.AugAssign)):
                    for t in (n.targets if isinstance(n, ast.Assign) else [n.target]):
                        if isinstance(t, ast.Attribute) and isinstance(t.value, ast.Name) and (
                                t.value.id == "cls" or t.value.id in m.classes or p.try_class(t.value.id) is not None):
                            items.append(("class attribute assigned at run time", f"{t.value.id}.{t.attr}",
                                          f"{m.rel()}:{n.lineno}", f"in {f.qualname}"))
    muts = name_mutations(p, set(mod_level) | set(cls_level))
    for name, (mod, v, line) in mod_level.items():
        items.append(("module-level mutable", f"{mod}.{name}", f"{p.rel(mod)}:{line}",
                      "mutated: " + "; ".join(muts[name]) if muts[name] else "never mutated"))
    for name, (cls, v, line) in cls_level.items():
        if muts[name]:
            items.append(("class-level mutable state", f"{cls}.{name}", f"line {line}", "mutated: " + "; ".join(muts[name])))
    return items
