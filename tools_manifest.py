#!/venv/bin/python
"""regenerates MANIFEST.json from the table below"""
import json

TEXT = {
 "C01": ("abstract interpretation of the compile pipeline on pattern skeletons + regex-template obligations (Lemma A/B)",
         "Static proof of the listed structural obligations on the current source: every mnemonic/operand regex the pipeline can emit for a sequence pattern (4 flag settings) has the ADDR+'::' frame, the user's name verbatim in a separator-free window (or exact), one comma-terminated field per operand in order, and a tail to '|'; from these the iff of the property follows by the composition lemma (DESIGN 3). Flag wiring YAML key -> stored flag -> regex mode is decided by interpretation of the loader. Plus: the rule loaded from its file compiles under its own flags from the constructor on and after any earlier rule; the searched stream is the whole listing read in text mode; operand fields carry no comma."),
 "C02": ("abstract interpretation on skeletons carrying `times` in both spellings + quantifier-shape obligations",
         "Every node that carries times compiles to exactly one non-capturing group quantified with the written bounds whose body is the un-repeated occurrence (judged by the same shape rules); (1,1) adds nothing; the bounds written in either YAML spelling reach the node unchanged."),
 "C03": ("abstract interpretation on operator skeletons (3 contexts, nested) + regex-AST equations per operator",
         "For every $and/$or/$and_any_order node: regex with children cut out == sequence / sealed alternation / sealed alternation of all k! orderings; children are typed by role and judged by that role's leaf rules."),
 "C04": ("abstract interpretation on $not skeletons + look-ahead/unit shape obligations",
         "(?!ARG) followed by exactly one aligned unit (record or field), quantifier around both, argument typed in the surrounding context."),
 "C05": ("abstract interpretation on capture skeletons + capture census, numbering and terminator obligations; register regex constants evaluated over the README's x86 table",
         "Capturing groups only in first occurrences; registration order == emission order == group number; back-references carry their own name's number and a mandatory terminator; register-family regexes accept exactly the family at the selected width. Plus: group numbers do not depend on rules compiled earlier in the process."),
 "C06": ("sibling cross-check: compile pipeline interpreted on $deref skeletons vs the operand normaliser's decision table, both against one frozen glue/slot layout",
         "Compiler template == '[' %?a ('+' %?b '*' (0x)?c)? ('+' (0x)?k)? ']' ',' for all presence patterns; normaliser rows == [s0+s1*s2(+outside)] / [inner(+outside)] built from the pieces of the parenthesised part. Plus: the operand splitter never cuts inside parentheses and nothing is added to the normalised operand list. Plus (token templates): for every presence pattern and spelling the compiled $deref regex fully matches the normaliser's output for the operand with the same components, and rejects every other presence pattern."),
 "C07": ("regex-template obligations (Lemma B frame, separator discipline) on every node template + lint of the shipped macro file + def-use of the reported address",
         "Every instruction-level element starts with ADDR+'::' and ends by consuming '|'; every class/dot excludes the separators of its level; the address is split('::')[0] of the same group(0). Plus: one search from the start of the whole stream; every record's address field is the line's hex address group and its operands come only from the operand group; the parser and the consumer never swallow an exception (no instruction silently dropped)."),
 "C08": ("NARROW: the repository's own line parser interpreted on token templates of the documented objdump line kinds and operand forms (exact regex matching on templates, no execution)",
         "For 15 instruction-line shapes LineParser.parse returns exactly one Instruction carrying that line's address and mnemonic; blank lines, section / file-format headers, symbol labels and '...' give none, a byte-continuation line only the pseudo instruction the always-first observer removes; one result per line in file order; the operand forms objdump prints (C09's list and the scale-less 16-bit forms) do not make the normaliser raise. Not decided: line kinds and operand forms outside these lists (objdump's grammar is not in the repository)."),
 "C09": ("NARROW: abstract interpretation of the operand normaliser as a decision table over operand classes + shape of the split regex",
         "For every feasible combination of the normaliser's syntactic tests the output template (literals + slot provenance) equals the row of the property; parse_operands is a 1:1 ordered map; the splitter is ',' not followed by [^(]*')'. Not decided: classification of arbitrary objdump operands. Plus: the lines reach the line parser as written and the operand list is the normalised split of the operand group only. Plus (token templates): every operand form of the property's list is rewritten to its stated normal form on every path, operand lists split between operands only, whole lines give the stated record (branch target without its <symbol>)."),
 "C10": ("NARROW: writer template by abstract interpretation + field alphabets of the line regexes + comma-freeness of normaliser outputs",
         "Record == addr '::' mnemonic ',' join(',', operands) + ',|', stream == in-order join; address class is hex, mnemonic class excludes ',' and blank, parenthesised commas never survive into a field. Not decided: '|' / '::' inside fields, injectivity in general. Plus: field kinds at every Instruction construction site; no half-parsed records (no swallowed exceptions). Plus (token templates): the record of 15 line shapes."),
 "C11": ("abstract interpretation of CompleteConsumer/MatchedObserver on an abstract listing (all paths) + API-usage rules",
         "One regex.finditer / regex.search call with exactly pattern, the whole in-order stream, timeout; every element forwarded once as group(0); no early exit; observer appends. Scan semantics are regex's (trusted)."),
 "C12": ("abstract interpretation of perform_matching for all mode combinations (all paths) + whole-program who-writes census",
         "bool == (a hit was reported), list == reported hits, string == searched stream, for every combination; address-only is a projection of the same hit; modes do not reach compilation; one observer per call. Plus: the search/finditer pair with group(0) reporting; observer options cannot drop a report."),
 "C13": ("abstract interpretation of the macro expander on rule skeletons (shapes concrete, names/bodies abstract), generators evaluated eagerly",
         "Expanded tree structurally identical to the manually inlined tree for every supported use form on every path; parameterised definitions unaltered; substitution on a fresh deep copy with arguments from the call node; extra files loaded afresh and prepended in order. Plus: uses carrying times, names with embedded macros in every position, falsy arguments, formal names occurring inside other names."),
 "C14": ("whole-program census of process-global mutable state + abstract interpretation of operation sequences in one run compared with the fresh run",
         "Every piece of global state is in the reviewed table; every config key read is reloaded on every path; for 6x3 operation sequences the successor's config reads, observers, argv, regex calls and result equal the fresh run. Plus: a rule whose config is rejected or tolerated leaves nothing of the previous rule's config in force."),
 "C15": ("abstract interpretation of both input routes; argv and data-flow obligations",
         "Exactly one subprocess.run(['objdump','-d','-M','att',('-j',s)*,file], capture_output, text, check); its stdout, unmodified, reaches the same parser/consumer as the assembly route's file text. objdump trusted. Plus: section names reach -j verbatim; for every accepted style the -M argument is not an Intel-syntax selector."),
 "C16": ("information-flow argument: abstract interpretation of LineParser.parse on an opaque line + shape rules on the line regexes",
         "Only literals and capture groups of the line regexes reach an Instruction; groups see address digits / blank-free token / token without blank and '#'; presentation parts optional and unbounded; only Instruction results are forwarded. Plus: byte-only continuation lines (216 spacing variants, constant regexes on constant lines) never parse as instructions; the text is unmodified under every config key. Plus (token templates): 26 presentations of two instructions give one record each; the other line kinds give nothing."),
 "C17": ("error-discipline rules: syntactic handler/log rules + all-paths abstract interpretation under modelled faults and ill-formed rule shapes",
         "No path on which a fault occurred returns a verdict; accepted times bounds are validated on every returning path; ill-formed shapes and config values raise on every path; main() propagates. Plus: every returning path has parsed the input's text and searched the stream."),
 "C18": ("abstract interpretation of ValidAddrObserver/ValidAddrRange/HexType on abstract instructions and bounds (all paths) + installation rule via the match flow",
         "Rewrite only under first-operand & branch mnemonic & no '*' & int(min,16)<=int(T,16)<=int(max,16) (one normaliser, optional 0x); otherwise the same object; tag shape; installed iff configured; own range on every call."),
 "C19": ("abstract interpretation of the expander on skeletons that place an abstract undefined reference at every position",
         "Every path ends in an error naming the leftover; no returning path keeps a string starting with '@'; macro names validated first; a later compilation is judged on its own definitions. Plus: cyclic and self-referential definitions; extra macro files are considered whatever the rule's own macros section looks like."),
 "C20": ("abstract interpretation of parse_args_from_console (argparse spec read from the calls) and main() on an opaque Namespace + log-line rules",
         "argparse spec as documented; every MatchConfig field is the corresponding option unmodified; the library entry point is called once; failures propagate; log lines co-located with the data they report. Plus: the boolean-mode operation main() runs searches and reports exactly like the list-mode operation; the RESULT line equals the returned verdict on every path."),
}
NOTE = ("Trusted base: the regex engine's documented semantics, objdump, the stream hypothesis H (C10) for C01-C07, and the "
        "checker itself: a 1.2 kLOC abstract interpreter for the repository's Python subset (fail-closed: an unsupported "
        "construct on an analysed path is ANALYSIS-ERROR, exit 2) and a small regex-template parser. Nothing of jasm is "
        "imported or executed; no solver is used.")
checks = []
for pid, (tech, text) in sorted(TEXT.items()):
    checks.append({
        "property_id": pid,
        "quick_cmd": f"./check {pid} --tier quick",
        "thorough_cmd": f"./check {pid} --tier thorough",
        "evidence_file": f"/verif/evidence/{pid}.json",
        "replay_cmd_template": f"./check {pid} --replay {{path}}",
        "engine": "jasmsa",
        "level_claimed": {"category": "other", "text": text + " Level 'other': static decision of stated structural obligations on the current source (not a proof of the behavioural property itself; the bridge is the paper argument of DESIGN 3/4).",
                          "design_ref": f"DESIGN.md 4 ({pid})"},
        "level_note": NOTE,
        "technique": "static analysis: " + tech,
    })
manifest = {
    "version": 1,
    "setup_cmd": "/venv/bin/python -c \"import yaml, ast, sys; sys.path.insert(0, '/verif'); import jasmsa.absint, jasmsa.rx\"",
    "hooks": {
        "guard": "JUKMR_JASM_VERIF",
        "enable": "none needed: the checks are static analyses that read /repo's working tree (or $JASMSA_REPO); no instrumentation exists in the source",
        "baseline_off_cmd": "cd /repo && /venv/bin/python -m pytest -ra -q -p no:cacheprovider --timeout=900 --continue-on-collection-errors",
        "source_commits": [],
        "add_only": True,
    },
    "engines": [{"name": "jasmsa", "path": "/verif/jasmsa", "serves_properties": sorted(TEXT),
                 "kind_free_text": "repository-specific static analyser: resolved program facts (ast), abstract interpreter over a string-template/object domain with all-paths exploration, regex-template parser and obligations, censuses"}],
    "checks": checks,
    "notes": "Known findings: /verif/known_findings.json. Seeded changes used to calibrate the checks: /verif/seeded/. The checks analyse /repo's working tree on every run ($JASMSA_REPO overrides the tree for calibration only).",
    "not_applicable": [],
}
json.dump(manifest, open("/verif/MANIFEST.json", "w"), indent=1)
print("checks:", len(checks))
