#!/venv/bin/python
"""rewrites the table between SEEDS-BEGIN / SEEDS-END in DESIGN.md from seeded/*/meta.json"""
import glob
import json
import re

rows = []
for f in sorted(glob.glob("/verif/seeded/*/meta.json")):
    m = json.load(open(f))
    sid = f.split("/")[-2]
    summ = (m.get("summary") or "").replace("|", "\\|").replace("\n", " ")
    needs = (m.get("needs") or "").replace("|", "\\|").replace("\n", " ")
    rows.append(f"| {sid} | r{m.get('round', 1)} | {summ[:230]} | {needs[:200]} | {', '.join(m.get('checks_that_fire', []))} | "
                f"{'yes' if m.get('target_check_fires') else 'no (reported by the other checks listed; see 9.1-9.6)'} |")
n = len(rows)
metas = [json.load(open(f)) for f in glob.glob("/verif/seeded/*/meta.json")]
hit = sum(1 for m in metas if m.get("target_check_fires"))
anyfire = sum(1 for m in metas if m.get("checks_that_fire"))
closed = sum(1 for m in metas if not m.get("checks_that_fire") and m.get("checks_with_analysis_error"))
silent = n - anyfire - closed
table = (f"{n} seeded changes are kept ({hit} of them are reported by the check of the property they were written against; "
         f"{anyfire} are reported by at least one check; of the other {n - anyfire}, {closed} make at least one check fail closed (ANALYSIS-ERROR, no verdict) and {silent} pass every check unnoticed - all of these are from round r9, see 9.7). Round r1: the agent got the property text only; round r2: additionally asked "
         f"to put at least one change outside the functions the property names; round r3: one feature addition (new option / input form / "
         f"API) with a slip, and one change made of two cooperating edits in different files, each harmless alone; round r4: a performance optimisation and a robustness/leniency improvement; round r5: a classic Python pitfall and a "
         f"data-only edit; round r6: a wrong-variable / argument-order / off-by-one slip and a condition slip; round r7: an idiom migration with different semantics and a change of when / how often something is evaluated; round r8: a large refactoring commit with one hidden slip and a change confined to shared definitions; round r9: a Python modernisation with a semantic side effect and a diagnostics addition with a side effect. `fires` lists every quick check that exits 1 on the "
         f"patched tree.\n\n"
         "| id | round | change | needs to manifest | checks that fire | target check fires |\n|---|---|---|---|---|---|\n" + "\n".join(rows) + "\n")
s = open("/verif/DESIGN.md").read()
s = re.sub(r"<!-- SEEDS-BEGIN -->.*<!-- SEEDS-END -->", lambda _: "<!-- SEEDS-BEGIN -->\n" + table + "<!-- SEEDS-END -->", s, flags=re.S)
open("/verif/DESIGN.md", "w").write(s)
print(n, hit)
